// Package batchwriter drives kvstore.BatchedWriter (property C08): free-running producers and forced
// schedules (through the verif yield points), all observed through the callbacks the writer makes on
// objects and on the store; the event log is validated by TLC against spec/batchwriter/BatchedWriter.tla.
package batchwriter

import (
	"bufio"
	"encoding/binary"
	"encoding/json"
	"flag"
	"fmt"
	"math/rand"
	"os"
	"runtime"
	"sync"
	"sync/atomic"
	"time"

	"github.com/iotaledger/hive.go/kvstore"
	"github.com/iotaledger/hive.go/kvstore/mapdb"

	"verifharness/core"
	"verifharness/sched"
)

func init() { core.RegisterCommand("bwdrive", drive) }

type elog struct {
	mu  sync.Mutex
	evs []core.Ev
}

func (l *elog) add(e core.Ev) { l.mu.Lock(); l.evs = append(l.evs, e); l.mu.Unlock() }

// obj implements kvstore.BatchWriteObject.
type obj struct {
	id    int
	val   atomic.Int64
	sched atomic.Bool
	lg    *elog
	gate  *sched.Gate // controlled scheduling: callbacks are stopping points
}

func key(id int) []byte { return []byte{byte(id)} }

func (o *obj) BatchWrite(b kvstore.BatchedMutations) {
	if o.gate != nil {
		o.gate.Wait("cb:batchwrite")
	}
	v := o.val.Load()
	buf := make([]byte, 8)
	binary.BigEndian.PutUint64(buf, uint64(v))
	o.lg.add(core.Ev{"op": "bwrite", "o": o.id, "v": v})
	if err := b.Set(key(o.id), buf); err != nil {
		panic(err)
	}
	if o.gate != nil {
		o.gate.Wait("cb:batchwrite-end") // the value was read: whoever enqueues the object from now on must get it written again
	}
}
func (o *obj) BatchWriteDone() {
	if o.gate != nil {
		o.gate.Wait("cb:done")
	}
	o.lg.add(core.Ev{"op": "done", "o": o.id})
}
func (o *obj) BatchWriteScheduled() bool { return !o.sched.CompareAndSwap(false, true) }
func (o *obj) ResetBatchWriteScheduled() { o.sched.Store(false) }

// logStore wraps a KVStore so that batch commits are observed.
type logStore struct {
	kvstore.KVStore
	lg   *elog
	gate *sched.Gate
}

type logBatch struct {
	kvstore.BatchedMutations
	lg    *elog
	items []any
	gate  *sched.Gate
}

func (s *logStore) Batched() (kvstore.BatchedMutations, error) {
	b, err := s.KVStore.Batched()
	if err != nil {
		return nil, err
	}
	return &logBatch{BatchedMutations: b, lg: s.lg, items: []any{}, gate: s.gate}, nil
}

func (b *logBatch) Set(k kvstore.Key, v kvstore.Value) error {
	b.items = append(b.items, core.Ev{"o": int(k[0]), "v": int64(binary.BigEndian.Uint64(v))})
	return b.BatchedMutations.Set(k, v)
}

func (b *logBatch) Commit() error {
	if b.gate != nil {
		b.gate.Wait("cb:commit")
	}
	err := b.BatchedMutations.Commit()
	if err == nil {
		b.lg.add(core.Ev{"op": "commit", "items": b.items})
	}
	return err
}

type run struct {
	lg      *elog
	db      kvstore.KVStore
	bw      *kvstore.BatchedWriter
	objs    map[int]*obj
	nobj    int
	cfg     core.Ev
	threads map[int]chan struct{} // thread id -> closed when the thread finished
	mu      sync.Mutex
}

func newRun(qsize, bsize int, timeout time.Duration, nobj int) *run {
	r := &run{lg: &elog{}, db: mapdb.NewMapDB(), objs: map[int]*obj{}, nobj: nobj, threads: map[int]chan struct{}{},
		cfg: core.Ev{"qsize": qsize, "bsize": bsize}}
	r.bw = kvstore.NewBatchedWriter(&logStore{KVStore: r.db, lg: r.lg}, kvstore.WithQueueSize(qsize), kvstore.WithBatchSize(bsize), kvstore.WithBatchTimeout(timeout))
	for i := 1; i <= nobj; i++ {
		r.objs[i] = &obj{id: i, lg: r.lg}
	}
	return r
}

func (r *run) goThread(id int, f func()) {
	ch := make(chan struct{})
	r.mu.Lock()
	r.threads[id] = ch
	r.mu.Unlock()
	go func() { defer close(ch); f() }()
}

func (r *run) enqueue(t, o int) {
	ob := r.objs[o]
	ob.val.Add(1)
	r.lg.add(core.Ev{"op": "enqBegin", "t": t, "o": o})
	r.bw.Enqueue(ob)
	r.lg.add(core.Ev{"op": "enqEnd", "t": t, "o": o})
}

func (r *run) stop(t int) {
	r.lg.add(core.Ev{"op": "stopBegin", "t": t})
	r.bw.StopBatchWriter()
	r.lg.add(core.Ev{"op": "stopEnd", "t": t})
}

// finish waits (bounded) for all threads, then emits the trace.
func (r *run) finish(enc *json.Encoder, wait time.Duration) (hung int) {
	deadline := time.After(wait)
	hungIDs := []int{}
	r.mu.Lock()
	ids := make([]int, 0, len(r.threads))
	for id := range r.threads {
		ids = append(ids, id)
	}
	r.mu.Unlock()
	for _, id := range ids {
		select {
		case <-r.threads[id]:
		case <-deadline:
			hungIDs = append(hungIDs, id)
			deadline = time.After(time.Millisecond)
		}
	}
	time.Sleep(30 * time.Millisecond) // let a writer that is still alive commit what it holds (time-out path)
	st := make([]any, 4)              // the trace configuration has 4 objects
	for i := 1; i <= 4; i++ {
		v, err := r.db.Get(key(i))
		if err != nil {
			st[i-1] = 0
		} else {
			st[i-1] = int64(binary.BigEndian.Uint64(v))
		}
	}
	r.lg.mu.Lock()
	defer r.lg.mu.Unlock()
	_ = enc.Encode(core.Ev{"op": "reset", "cfg": r.cfg})
	for _, e := range r.lg.evs {
		_ = enc.Encode(e)
	}
	_ = enc.Encode(core.Ev{"op": "final", "hung": core.SortedInts(hungIDs), "store": st})
	return len(hungIDs)
}

func drive(args []string) int {
	fs := flag.NewFlagSet("bwdrive", flag.ExitOnError)
	seed := fs.Int64("seed", 1, "")
	traces := fs.Int("traces", 40, "")
	forced := fs.Bool("forced", true, "include the forced schedules")
	controlled := fs.Int("controlled", 40, "runs under the random controlled scheduler")
	out := fs.String("out", "", "")
	_ = fs.Parse(args)
	f, err := os.Create(*out)
	if err != nil {
		fmt.Fprintln(os.Stderr, err)
		return 2
	}
	defer f.Close()
	w := bufio.NewWriter(f)
	defer w.Flush()
	enc := json.NewEncoder(w)
	rng := rand.New(rand.NewSource(*seed))
	hangs, n := 0, 0
	gate := sched.NewGate()
	kvstore.VerifHook = func(p string) { gate.Wait(p) }
	if *forced {
		for _, q := range []int{0, 1, 2} {
			for _, b := range []int{1, 2} {
				if q > 0 {
					hangs += forcedStartRace(enc, gate, q, b)
					n++
				}
				hangs += forcedStopWindow(enc, gate, q, b)
				n++
				hangs += forcedRequeueDuringWrite(enc, gate, q, b)
				n++
				if q > 0 {
					hangs += forcedConcurrentFirstEnqueue(enc, gate, q, b)
					n++
				}
				hangs += forcedSlowFlush(enc, gate, q, b+1)
				n++
			}
		}
		hangs += gomaxprocs1(enc)
		n++
	}
	for tr := 0; tr < *controlled; tr++ {
		runtime.GOMAXPROCS(16)
		hangs += controlledRun(enc, rng, gate)
		n++
	}
	for tr := 0; tr < *traces; tr++ {
		hangs += freeRun(enc, rng, tr)
		n++
	}
	runtime.GOMAXPROCS(16)
	fmt.Printf("{\"traces\": %d, \"hangs\": %d}\n", n, hangs)
	return 0
}

// forcedStartRace: the writer goroutine is held at its very first statement while Enqueue returns and Stop is called.
func forcedStartRace(enc *json.Encoder, gate *sched.Gate, q, b int) int {
	r := newRun(q, b, 20*time.Millisecond, 2)
	gate.Hold("writer-goroutine-start")
	r.goThread(1, func() { r.enqueue(1, 1) })
	sched.Quiesce(2 * time.Second)
	r.goThread(2, func() { r.stop(2) })
	sched.Quiesce(2 * time.Second)
	gate.ReleaseAll()
	return r.finish(enc, 3*time.Second)
}

// forcedRequeueDuringWrite: the writer is held at the end of BatchWrite(o) (o's value was read and put into the batch); o
// changes and is enqueued again; the writer goes on; Stop. The second state must be written too.
func forcedRequeueDuringWrite(enc *json.Encoder, gate *sched.Gate, q, b int) int {
	r := newRun(q, b, 5*time.Millisecond, 2)
	for _, o := range r.objs {
		o.gate = gate
	}
	gate.Hold("cb:batchwrite-end")
	r.goThread(1, func() { r.enqueue(1, 1) })
	for i := 0; i < 400 && gate.Parked("cb:batchwrite-end") == 0; i++ {
		time.Sleep(time.Millisecond)
	}
	gate.Free("cb:batchwrite-end")
	r.goThread(2, func() { r.enqueue(2, 1) })
	select {
	case <-r.threads[2]:
	case <-time.After(300 * time.Millisecond): // (queue size 0: the Enqueue waits for the writer, which is parked)
	}
	gate.ReleaseAll()
	time.Sleep(20 * time.Millisecond)
	r.goThread(3, func() { r.stop(3) })
	return r.finish(enc, 3*time.Second)
}

// forcedConcurrentFirstEnqueue: the very first Enqueue of a fresh writer is held on its way to start the writer
// (hook start-before-lock) while a second producer enqueues another object; both calls return before Stop, so both
// objects have to be written.
func forcedConcurrentFirstEnqueue(enc *json.Encoder, gate *sched.Gate, q, b int) int {
	r := newRun(q, b, 5*time.Millisecond, 2)
	gate.Hold("start-before-lock")
	r.goThread(1, func() { r.enqueue(1, 1) })
	for i := 0; i < 400 && gate.Parked("start-before-lock") == 0; i++ {
		time.Sleep(time.Millisecond)
	}
	r.goThread(2, func() { r.enqueue(2, 2) })
	select {
	case <-r.threads[2]:
	case <-time.After(100 * time.Millisecond): // (it may rightly wait for the first caller to have started the writer)
	}
	gate.ReleaseAll()
	<-r.threads[1]
	select {
	case <-r.threads[2]:
	case <-time.After(2 * time.Second):
	}
	time.Sleep(20 * time.Millisecond)
	r.goThread(3, func() { r.stop(3) })
	return r.finish(enc, 3*time.Second)
}

// forcedSlowFlush: a Flush is being carried out (the writer is held inside BatchWriteDone of the flushed object) for several
// batch time-outs; afterwards one more object is enqueued (a partial batch, no Flush): the time-out has to write it, and Stop
// has to return.
func forcedSlowFlush(enc *json.Encoder, gate *sched.Gate, q, b int) int {
	r := newRun(q, b, 5*time.Millisecond, 2)
	for _, o := range r.objs {
		o.gate = gate
	}
	gate.Hold("cb:done")
	r.goThread(1, func() { r.enqueue(1, 1); r.bw.Flush() })
	for i := 0; i < 400 && gate.Parked("cb:done") == 0; i++ {
		time.Sleep(time.Millisecond)
	}
	time.Sleep(20 * time.Millisecond) // four batch time-outs go by inside the flush
	gate.ReleaseAll()
	time.Sleep(10 * time.Millisecond)
	r.goThread(2, func() { r.enqueue(2, 2) })
	time.Sleep(50 * time.Millisecond) // ten batch time-outs: the partial batch is due
	r.goThread(3, func() { r.stop(3) })
	return r.finish(enc, 3*time.Second)
}

// forcedStopWindow: an Enqueue is held right after its running check while Stop runs.
func forcedStopWindow(enc *json.Encoder, gate *sched.Gate, q, b int) int {
	r := newRun(q, b, 20*time.Millisecond, 2)
	r.goThread(3, func() { r.enqueue(3, 2) }) // starts the writer; written by the time-out
	<-r.threads[3]
	time.Sleep(40 * time.Millisecond)
	gate.Hold("enqueue-after-running-check")
	r.goThread(1, func() { r.enqueue(1, 1) })
	sched.Quiesce(2 * time.Second)
	gate.Free("enqueue-after-running-check")
	r.goThread(2, func() { r.stop(2) })
	time.Sleep(60 * time.Millisecond) // (a timer-driven writer is never "quiescent": give Stop real time)
	gate.ReleaseAll()
	return r.finish(enc, 3*time.Second)
}

// gomaxprocs1: Enqueue; Stop back to back on one P (the writer goroutine has not run yet).
func gomaxprocs1(enc *json.Encoder) int {
	old := runtime.GOMAXPROCS(1)
	defer runtime.GOMAXPROCS(old)
	r := newRun(4, 2, 20*time.Millisecond, 2)
	r.goThread(1, func() { r.enqueue(1, 1); r.stop(1) })
	return r.finish(enc, 3*time.Second)
}

// controlledRun: every yield point and every callback is a stopping point; a random scheduler releases one parked
// goroutine at a time (whenever the process is quiescent), so the run explores arrival orders that free running
// practically never produces (Stop while a producer sits between its check and its send, while the writer is inside
// BatchWrite / Commit / Done, Flush in between, ...).
func controlledRun(enc *json.Encoder, rng *rand.Rand, gate *sched.Gate) int {
	q := []int{0, 1, 2}[rng.Intn(3)]
	b := 1 + rng.Intn(2)
	nobj := 1 + rng.Intn(2)
	np := 1 + rng.Intn(3)
	r := newRun(q, b, 3*time.Millisecond, nobj)
	r.bw = kvstore.NewBatchedWriter(&logStore{KVStore: r.db, lg: r.lg, gate: gate}, kvstore.WithQueueSize(q), kvstore.WithBatchSize(b), kvstore.WithBatchTimeout(3*time.Millisecond))
	for _, o := range r.objs {
		o.gate = gate
	}
	gate.HoldAll()
	per := 1 + rng.Intn(3)
	for p := 1; p <= np; p++ {
		p := p
		pr := rand.New(rand.NewSource(rng.Int63()))
		r.goThread(p, func() {
			for i := 0; i < per; i++ {
				r.enqueue(p, 1+pr.Intn(nobj))
				if pr.Intn(3) == 0 {
					r.bw.Flush()
				}
			}
		})
	}
	stopAfter := rng.Intn(8)
	stopped := false
	allDone := func() bool {
		r.mu.Lock()
		defer r.mu.Unlock()
		for _, ch := range r.threads {
			select {
			case <-ch:
			default:
				return false
			}
		}
		return true
	}
	for step := 0; step < 400; step++ {
		sched.QuiesceOpt(20*time.Millisecond, 2, false)
		if step == stopAfter && !stopped {
			stopped = true
			r.goThread(6, func() { r.stop(6) })
			continue
		}
		pts := gate.ParkedPoints()
		if len(pts) == 0 {
			if stopped && allDone() {
				break
			}
			time.Sleep(2 * time.Millisecond) // the writer is waiting for its time-out
			continue
		}
		gate.Release(pts[rng.Intn(len(pts))])
	}
	gate.ReleaseAll()
	return r.finish(enc, 3*time.Second)
}

func freeRun(enc *json.Encoder, rng *rand.Rand, tr int) int {
	q := []int{0, 1, 2, 4}[rng.Intn(4)]
	b := 1 + rng.Intn(3)
	to := []time.Duration{time.Millisecond, 5 * time.Millisecond, 50 * time.Millisecond}[rng.Intn(3)]
	nobj := 1 + rng.Intn(4)
	np := 2 + rng.Intn(4)
	if tr%6 == 5 {
		runtime.GOMAXPROCS(1)
	} else {
		runtime.GOMAXPROCS(16)
	}
	r := newRun(q, b, to, nobj)
	per := 5 + rng.Intn(30)
	for p := 1; p <= np; p++ {
		p := p
		pr := rand.New(rand.NewSource(rng.Int63()))
		r.goThread(p, func() {
			for i := 0; i < per; i++ {
				r.enqueue(p, 1+pr.Intn(nobj))
				switch pr.Intn(6) {
				case 0:
					r.bw.Flush()
				case 1:
					runtime.Gosched()
				case 2:
					time.Sleep(time.Duration(pr.Intn(300)) * time.Microsecond)
				}
			}
		})
	}
	delay := time.Duration(rng.Intn(3000)) * time.Microsecond
	r.goThread(6, func() {
		time.Sleep(delay)
		r.stop(6)
	})
	return r.finish(enc, 5*time.Second)
}
