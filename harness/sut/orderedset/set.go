package orderedset

import (
	"errors"
	"math/rand"
	"sort"

	"github.com/iotaledger/hive.go/ds"
	"github.com/iotaledger/hive.go/ds/types"

	"verifharness/core"
)

const osElems = 3 // NE of OrderedSet*.cfg

// el is the real element type; model element e (1..NE) is el(e)*257.
type el = uint16

func toEl(e int) el   { return el(e) * 257 }
func fromEl(x el) int { return int(x) / 257 }

type osSUT struct {
	set  ds.Set[el]
	read ds.ReadableSet[el] // the set itself or (cfg.ro) its ReadOnly view: all read methods go through it
	ro   bool
}

func init() { core.Register("OrderedSet", func() core.SUT { return &osSUT{} }) }

func (s *osSUT) Reset(cfg core.Ev) {
	var initial []el
	for _, e := range core.Ints(cfg, "init") {
		initial = append(initial, toEl(e))
	}
	s.set = ds.NewSet(initial...)
	s.ro = core.Bool(cfg, "ro")
	s.read = s.set
	if s.ro {
		s.read = s.set.ReadOnly()
	}
}

// ordered builds a real set by inserting the elements in the given order.
func ordered(es []int) ds.Set[el] {
	out := ds.NewSet[el]()
	for _, e := range es {
		out.Add(toEl(e))
	}

	return out
}

// plain builds a real set for an argument whose order must not matter: reverse insertion order,
// through the variadic constructor.
func plain(es []int) ds.Set[el] {
	rev := make([]el, 0, len(es))
	for i := len(es) - 1; i >= 0; i-- {
		rev = append(rev, toEl(es[i]))
	}

	return ds.NewSet(rev...)
}

// plainRO is plain built through NewReadableSet (arguments typed ReadableSet).
func plainRO(es []int) ds.ReadableSet[el] {
	rev := make([]el, 0, len(es))
	for i := len(es) - 1; i >= 0; i-- {
		rev = append(rev, toEl(es[i]))
	}

	return ds.NewReadableSet(rev...)
}

// arg passes an argument set either as it is or (cfg.ro) as its read-only view.
func (s *osSUT) arg(x ds.Set[el]) ds.ReadableSet[el] {
	if s.ro {
		return x.ReadOnly()
	}

	return x
}

func inOrder(x ds.ReadableSet[el]) []any {
	out := []any{}
	for _, e := range x.ToSlice() {
		out = append(out, fromEl(e))
	}

	return out
}

func sortedSet(x ds.ReadableSet[el]) []any {
	var xs []int
	for _, e := range x.ToSlice() {
		xs = append(xs, fromEl(e))
	}
	sort.Ints(xs)

	return core.Seq(xs)
}

type reverser interface {
	ForEachReverse(consumer func(key el, value types.Empty) bool) bool
}

func reverse(x any) []any {
	out := []any{}
	x.(reverser).ForEachReverse(func(e el, _ types.Empty) bool {
		out = append(out, fromEl(e))

		return true
	})

	return out
}

func proj(x ds.Set[el]) core.Ev {
	return core.Ev{"fwd": inOrder(x), "rev": reverse(x), "size": x.Size()}
}

func (s *osSUT) st() any {
	has := []any{}
	for e := 1; e <= osElems; e++ {
		has = append(has, s.read.Has(toEl(e)))
	}

	return core.Ev{"fwd": inOrder(s.read), "rev": reverse(s.set), "size": s.read.Size(), "empty": s.read.IsEmpty(), "has": has}
}

func mutations(m ds.SetMutations[el]) core.Ev {
	return core.Ev{"added": sortedSet(m.AddedElements()), "deleted": sortedSet(m.DeletedElements()), "empty": m.IsEmpty()}
}

func newMutations(a ds.Set[el], d ds.Set[el]) ds.SetMutations[el] {
	if d.IsEmpty() {
		// the variadic constructor: its elements are the added ones
		return ds.NewSetMutations(a.ToSlice()...)
	}

	return ds.NewSetMutations[el]().WithAddedElements(a).WithDeletedElements(d)
}

var errStop = errors.New("stop")

func (s *osSUT) Apply(e core.Ev) (any, any) { return s.apply(e), s.st() }

func (s *osSUT) self() ds.ReadableSet[el] { return s.read }

func (s *osSUT) apply(e core.Ev) any {
	switch op := core.Str(e, "op"); op {
	case "Add":
		return s.set.Add(toEl(core.Int(e, "e")))
	case "Delete":
		return s.set.Delete(toEl(core.Int(e, "e")))
	case "Has":
		return s.read.Has(toEl(core.Int(e, "e")))
	case "Is":
		return s.read.Is(toEl(core.Int(e, "e")))
	case "AddAll":
		return sortedSet(s.set.AddAll(s.arg(ordered(core.Ints(e, "a")))))
	case "DeleteAll":
		return sortedSet(s.set.DeleteAll(plainRO(core.Ints(e, "d"))))
	case "Apply":
		return mutations(s.set.Apply(newMutations(ordered(core.Ints(e, "a")), plain(core.Ints(e, "d")))))
	case "Compute":
		seen := []any{}
		res := mutations(s.set.Compute(func(cur ds.ReadableSet[el]) ds.SetMutations[el] {
			seen = inOrder(cur)
			switch f := core.Str(e, "f"); f {
			case "const":
				return newMutations(ordered(core.Ints(e, "a")), plain(core.Ints(e, "d")))
			case "complement":
				add := ds.NewSet[el]()
				for x := 1; x <= osElems; x++ {
					if !cur.Has(toEl(x)) {
						add.Add(toEl(x))
					}
				}

				return ds.NewSetMutations[el]().WithAddedElements(add).WithDeletedElements(cur.Clone())
			case "readd":
				return ds.NewSetMutations(cur.ToSlice()...)
			default:
				panic("unknown factory " + f)
			}
		}))
		res["seen"] = seen

		return res
	case "Replace":
		return sortedSet(s.set.Replace(s.arg(ordered(core.Ints(e, "a")))))
	case "Clear":
		s.read.Clear()
		return true
	case "AddAllSelf":
		return sortedSet(s.set.AddAll(s.self()))
	case "DeleteAllSelf":
		return sortedSet(s.set.DeleteAll(s.self()))
	case "ReplaceSelf":
		return sortedSet(s.set.Replace(s.self()))
	case "HasAllSelf":
		return s.read.HasAll(s.self())
	case "EqualsSelf":
		return s.read.Equals(s.self())
	case "IntersectSelf":
		return sortedSet(s.read.Intersect(s.self()))
	case "HasAll":
		return s.read.HasAll(plainRO(core.Ints(e, "d")))
	case "Equals":
		return s.read.Equals(s.arg(plain(core.Ints(e, "d"))))
	case "Intersect":
		return sortedSet(s.read.Intersect(plainRO(core.Ints(e, "d"))))
	case "Filter":
		p := map[int]bool{}
		for _, x := range core.Ints(e, "p") {
			p[x] = true
		}
		asked := []any{}
		out := s.read.Filter(func(x el) bool {
			asked = append(asked, fromEl(x))

			return p[fromEl(x)]
		})

		return core.Ev{"out": inOrder(out), "asked": asked}
	case "Clone":
		c := s.read.Clone()
		before := proj(c)
		c.Delete(toEl(core.Int(e, "e")))
		c.Add(toEl(core.Int(e, "e")))

		return core.Ev{"c": before, "c2": proj(c)}
	case "Any":
		x, ok := s.read.Any()
		member := false
		if ok {
			for _, y := range s.read.ToSlice() {
				member = member || y == x
			}
			member = member && s.read.Has(x)
		}

		return core.Ev{"ex": ok, "member": member}
	case "Size":
		return s.read.Size()
	case "IsEmpty":
		return s.read.IsEmpty()
	case "ToSlice":
		return inOrder(s.read)
	case "Range":
		out := []any{}
		s.read.Range(func(x el) { out = append(out, fromEl(x)) })

		return out
	case "Iterator":
		out := []any{}
		for it := s.read.Iterator(); it.HasNext(); {
			out = append(out, fromEl(it.Next()))
		}

		return out
	case "ForEach":
		seq, calls, n := []any{}, 0, core.Int(e, "n")
		err := s.read.ForEach(func(x el) error {
			seq = append(seq, fromEl(x))
			if calls++; calls == n {
				return errStop
			}

			return nil
		})
		if err != nil && !errors.Is(err, errStop) {
			return core.Ev{"seq": seq, "err": err.Error()}
		}

		return core.Ev{"seq": seq, "err": err != nil}
	case "RoundTrip":
		b, err := s.read.Encode(api)
		if err != nil {
			return core.Ev{"ok": false, "err": err.Error()}
		}
		dec := ds.NewSet[el]()
		n, err := dec.Decode(api, b)

		return core.Ev{"ok": err == nil && n == len(b), "dec": proj(dec)}
	case "DecodeInto":
		b, err := ordered(core.Ints(e, "a")).Encode(api)
		if err != nil {
			return "encode: " + err.Error()
		}
		n, err := s.set.Decode(api, b)

		return err == nil && n == len(b)
	default:
		panic("unknown op " + op)
	}
}

func (s *osSUT) RandomCfg(r *rand.Rand) core.Ev {
	return core.Pick(r,
		core.Ev{"init": []any{}, "ro": false},
		core.Ev{"init": []any{2, 1}, "ro": true},
		core.Ev{"init": []any{3, 3, 1}, "ro": false})
}

// randSubset returns a random subset of 1..n as a sorted sequence.
func randSubset(r *rand.Rand, n int) []any {
	out := []any{}
	for e := 1; e <= n; e++ {
		if r.Intn(2) == 0 {
			out = append(out, e)
		}
	}

	return out
}

func (s *osSUT) RandomStimulus(r *rand.Rand) core.Ev {
	e := 1 + r.Intn(osElems)
	switch r.Intn(30) {
	case 0, 1, 2:
		return core.Ev{"op": "Add", "e": e}
	case 3, 4:
		return core.Ev{"op": "Delete", "e": e}
	case 5:
		return core.Ev{"op": core.Pick(r, "Has", "Is"), "e": e}
	case 6, 7:
		return core.Ev{"op": "AddAll", "a": randDistinct(r, osElems)}
	case 8, 9:
		return core.Ev{"op": "DeleteAll", "d": randSubset(r, osElems)}
	case 10, 11, 12:
		return core.Ev{"op": "Apply", "a": randDistinct(r, osElems), "d": randSubset(r, osElems)}
	case 13, 14:
		return core.Ev{"op": "Compute", "f": "const", "a": randSubset(r, osElems), "d": randSubset(r, osElems)}
	case 15:
		return core.Ev{"op": "Compute", "f": core.Pick(r, "complement", "readd")}
	case 16, 17:
		return core.Ev{"op": "Replace", "a": randDistinct(r, osElems)}
	case 18:
		return core.Ev{"op": core.Pick(r, "AddAllSelf", "DeleteAllSelf", "ReplaceSelf", "HasAllSelf", "EqualsSelf", "IntersectSelf")}
	case 19:
		return core.Ev{"op": core.Pick(r, "HasAll", "Equals", "Intersect"), "d": randSubset(r, osElems)}
	case 20:
		return core.Ev{"op": "Filter", "p": randSubset(r, osElems)}
	case 21:
		return core.Ev{"op": "Clone", "e": e}
	case 22:
		return core.Ev{"op": "ForEach", "n": r.Intn(osElems + 1)}
	case 23, 24:
		return core.Ev{"op": core.Pick(r, "Any", "Size", "IsEmpty", "ToSlice", "Range", "Iterator")}
	case 25:
		if r.Intn(3) == 0 {
			return core.Ev{"op": "Clear"}
		}

		return core.Ev{"op": "RoundTrip"}
	case 26:
		return core.Ev{"op": "RoundTrip"}
	}

	return core.Ev{"op": "DecodeInto", "a": randDistinct(r, osElems)}
}
