package orderedset

import (
	"bufio"
	"encoding/json"
	"flag"
	"fmt"
	"github.com/iotaledger/hive.go/ds/orderedmap"
	"math/rand"
	"os"
	"runtime"
	"sort"
	"sync"
	"time"

	"github.com/iotaledger/hive.go/ds"

	"verifharness/core"
	"verifharness/sched"
)

// setconc: concurrent use of ds.Set (C11): linearizability histories of single-element operations and the atomic
// Apply/Compute/Replace, mixes of ALL methods under a watchdog, and the forced DeleteAll || Apply schedule.
func init() { core.RegisterCommand("setconc", setConc) }

type hlog struct {
	mu  sync.Mutex
	evs []core.Ev
}

func (l *hlog) add(e core.Ev) { l.mu.Lock(); l.evs = append(l.evs, e); l.mu.Unlock() }

func sortedInts(s ds.ReadableSet[int]) []any {
	xs := s.ToSlice()
	sort.Ints(xs)
	return core.Seq(xs)
}

func mkSet(xs ...int) ds.Set[int] { return ds.NewSet(xs...) }

func randElems(rg *rand.Rand) []int {
	var out []int
	for x := 1; x <= 3; x++ {
		if rg.Intn(2) == 0 {
			out = append(out, x)
		}
	}
	return out
}

// one linearizable-op call by thread t
func linCall(lg *hlog, s ds.Set[int], t int, rg *rand.Rand) {
	x := 1 + rg.Intn(3)
	switch rg.Intn(8) {
	case 0, 1:
		lg.add(core.Ev{"ev": "inv", "t": t, "op": "Add", "a": x})
		r := s.Add(x)
		lg.add(core.Ev{"ev": "ret", "t": t, "res": r})
	case 2, 3:
		lg.add(core.Ev{"ev": "inv", "t": t, "op": "Delete", "a": x})
		r := s.Delete(x)
		lg.add(core.Ev{"ev": "ret", "t": t, "res": r})
	case 4:
		lg.add(core.Ev{"ev": "inv", "t": t, "op": "Has", "a": x})
		r := s.Has(x)
		lg.add(core.Ev{"ev": "ret", "t": t, "res": r})
	case 5:
		add, del := randElems(rg), randElems(rg)
		lg.add(core.Ev{"ev": "inv", "t": t, "op": "Apply", "a": core.Ev{"add": core.Seq(add), "del": core.Seq(del)}})
		m := s.Apply(ds.NewSetMutations[int]().WithAddedElements(mkSet(add...)).WithDeletedElements(mkSet(del...)))
		lg.add(core.Ev{"ev": "ret", "t": t, "res": core.Ev{"added": sortedInts(m.AddedElements()), "deleted": sortedInts(m.DeletedElements())}})
	case 6:
		lg.add(core.Ev{"ev": "inv", "t": t, "op": "Toggle", "a": x})
		m := s.Compute(func(cur ds.ReadableSet[int]) ds.SetMutations[int] {
			runtime.Gosched()
			if cur.Has(x) {
				return ds.NewSetMutations[int]().WithDeletedElements(mkSet(x))
			}
			return ds.NewSetMutations[int]().WithAddedElements(mkSet(x))
		})
		lg.add(core.Ev{"ev": "ret", "t": t, "res": core.Ev{"added": sortedInts(m.AddedElements()), "deleted": sortedInts(m.DeletedElements())}})
	case 7:
		el := randElems(rg)
		lg.add(core.Ev{"ev": "inv", "t": t, "op": "Replace", "a": core.Seq(el)})
		r := s.Replace(mkSet(el...))
		lg.add(core.Ev{"ev": "ret", "t": t, "res": sortedInts(r)})
	}
}

// gatedSet is an argument set whose iteration parks at a gate before each element (a user-supplied ReadableSet).
type gatedSet struct {
	ds.ReadableSet[int]
	gate *sched.Gate
}

// gatedAdds is the added-elements set of a mutation: every iteration over it parks after the first element was handed out.
type gatedAdds struct {
	ds.Set[int]
	gate *sched.Gate
}

func (g *gatedAdds) pause(n *int) {
	*n++
	if *n == 1 {
		g.gate.Wait("arg-range")
	}
}

func (g *gatedAdds) Range(cb func(int)) {
	n := 0
	g.Set.Range(func(x int) { cb(x); g.pause(&n) })
}

func (g *gatedAdds) ForEach(cb func(int) error) error {
	n := 0
	return g.Set.ForEach(func(x int) error {
		err := cb(x)
		g.pause(&n)
		return err
	})
}

// gatedView is an argument set whose ToSlice parks at a gate (a view of the receiver handed to Replace).
type gatedView struct {
	ds.ReadableSet[int]
	gate *sched.Gate
}

func (g *gatedView) ToSlice() []int {
	r := g.ReadableSet.ToSlice() // (parks AFTER the view was read: what is returned is the contents of that moment)
	g.gate.Wait("arg-toslice")
	return r
}

func (g *gatedSet) ForEach(cb func(int) error) error {
	return g.ReadableSet.ForEach(func(x int) error {
		g.gate.Wait("arg-foreach")
		return cb(x)
	})
}

func waitAll(chs []chan struct{}, d time.Duration) []int {
	hung := []int{}
	deadline := time.After(d)
	for i, ch := range chs {
		select {
		case <-ch:
		case <-deadline:
			hung = append(hung, i+1)
			deadline = time.After(time.Millisecond)
		}
	}
	return hung
}

func emit(enc *json.Encoder, lg *hlog, s ds.Set[int], hung []int, withContents bool) {
	lg.mu.Lock()
	defer lg.mu.Unlock()
	_ = enc.Encode(core.Ev{"ev": "reset"})
	for _, e := range lg.evs {
		_ = enc.Encode(e)
	}
	fin := core.Ev{"ev": "final", "hung": core.Seq(hung)}
	if len(hung) == 0 {
		fin["contents"] = sortedInts(s)
	} else {
		fin["contents"] = []any{}
	}
	_ = enc.Encode(fin)
}

func setConc(args []string) int {
	fs := flag.NewFlagSet("setconc", flag.ExitOnError)
	seed := fs.Int64("seed", 1, "")
	hist := fs.Int("histories", 60, "")
	mixes := fs.Int("mixes", 30, "")
	out := fs.String("out", "", "")
	_ = fs.Parse(args)
	f, err := os.Create(*out)
	if err != nil {
		fmt.Fprintln(os.Stderr, err)
		return 2
	}
	defer f.Close()
	w := bufio.NewWriter(f)
	defer w.Flush()
	enc := json.NewEncoder(w)
	rng := rand.New(rand.NewSource(*seed))
	hangs := 0

	// forced schedule (TLC counterexample of SetLockImpl variant deleteall_reentrant):
	// T1 DeleteAll(arg) is held inside the argument's iteration (read lock held), T2 Apply queues for the write lock,
	// T1 continues: every call must still return.
	for _, second := range []string{"Apply", "Compute", "Replace"} {
		lg := &hlog{}
		s := ds.NewSet(1, 2, 3)
		gate := sched.NewGate()
		gate.Hold("arg-foreach")
		chs := []chan struct{}{make(chan struct{}), make(chan struct{})}
		go func() {
			defer close(chs[0])
			s.DeleteAll(&gatedSet{ReadableSet: ds.NewSet(1, 2), gate: gate})
		}()
		sched.Quiesce(2 * time.Second)
		go func() {
			defer close(chs[1])
			switch second {
			case "Apply":
				s.Apply(ds.NewSetMutations[int]().WithAddedElements(mkSet(3)))
			case "Compute":
				s.Compute(func(ds.ReadableSet[int]) ds.SetMutations[int] { return ds.NewSetMutations[int]() })
			case "Replace":
				s.Replace(mkSet(3))
			}
		}()
		sched.Quiesce(2 * time.Second)
		gate.ReleaseAll()
		hung := waitAll(chs, 3*time.Second)
		hangs += len(hung)
		lg.add(core.Ev{"ev": "note", "scenario": "DeleteAll(gated argument) || " + second})
		// contents are not asserted for this scenario (DeleteAll is not atomic): report what the set holds
		lg.mu.Lock()
		_ = enc.Encode(core.Ev{"ev": "reset"})
		_ = enc.Encode(core.Ev{"ev": "final", "hung": core.Seq(hung), "contents": []any{}, "scenario": "DeleteAll || " + second})
		lg.mu.Unlock()
		_ = s
	}

	// forced schedule: Replace with a view of the set itself (which Replace explicitly allows) is held while it reads that
	// view; a writer arrives (it has to wait: the view is read inside Replace's critical section); the Replace goes on.
	// The history must be linearizable: whatever the writer reports as done is still there afterwards.
	for _, second := range []string{"Add", "Delete", "Toggle", "Apply"} {
		lg := &hlog{}
		s := ds.NewSet[int]()
		for _, x := range []int{1, 2} {
			lg.add(core.Ev{"ev": "inv", "t": 6, "op": "Add", "a": x})
			lg.add(core.Ev{"ev": "ret", "t": 6, "res": s.Add(x)})
		}
		gate := sched.NewGate()
		gate.Hold("arg-toslice")
		chs := []chan struct{}{make(chan struct{}), make(chan struct{})}
		go func() {
			defer close(chs[0])
			lg.add(core.Ev{"ev": "inv", "t": 1, "op": "ReplaceSelf", "a": []any{}})
			r := s.Replace(&gatedView{ReadableSet: s.ReadOnly(), gate: gate})
			lg.add(core.Ev{"ev": "ret", "t": 1, "res": sortedInts(r)})
		}()
		sched.Quiesce(2 * time.Second)
		go func() {
			defer close(chs[1])
			switch second {
			case "Add":
				lg.add(core.Ev{"ev": "inv", "t": 2, "op": "Add", "a": 3})
				lg.add(core.Ev{"ev": "ret", "t": 2, "res": s.Add(3)})
			case "Delete":
				lg.add(core.Ev{"ev": "inv", "t": 2, "op": "Delete", "a": 1})
				lg.add(core.Ev{"ev": "ret", "t": 2, "res": s.Delete(1)})
			case "Toggle":
				lg.add(core.Ev{"ev": "inv", "t": 2, "op": "Toggle", "a": 3})
				m := s.Compute(func(cur ds.ReadableSet[int]) ds.SetMutations[int] {
					if cur.Has(3) {
						return ds.NewSetMutations[int]().WithDeletedElements(mkSet(3))
					}
					return ds.NewSetMutations[int]().WithAddedElements(mkSet(3))
				})
				lg.add(core.Ev{"ev": "ret", "t": 2, "res": core.Ev{"added": sortedInts(m.AddedElements()), "deleted": sortedInts(m.DeletedElements())}})
			case "Apply":
				lg.add(core.Ev{"ev": "inv", "t": 2, "op": "Apply", "a": core.Ev{"add": core.Seq([]int{3}), "del": core.Seq([]int{2})}})
				m := s.Apply(ds.NewSetMutations[int]().WithAddedElements(mkSet(3)).WithDeletedElements(mkSet(2)))
				lg.add(core.Ev{"ev": "ret", "t": 2, "res": core.Ev{"added": sortedInts(m.AddedElements()), "deleted": sortedInts(m.DeletedElements())}})
			}
		}()
		sched.Quiesce(2 * time.Second)
		gate.ReleaseAll()
		hung := waitAll(chs, 3*time.Second)
		hangs += len(hung)
		emit(enc, lg, s, hung, true)
	}

	// forced schedule: an add-only Apply is held between two of its insertions (its set of added elements parks after handing out
	// the first element); another Apply / Add / Delete arrives (it has to wait: Apply is atomic with respect to every mutator);
	// the first Apply goes on. What each call reports as changed must fit one order of the calls.
	for _, second := range []string{"Apply", "Add", "Delete", "Toggle"} {
		lg := &hlog{}
		s := ds.NewSet[int]()
		gate := sched.NewGate()
		gate.Hold("arg-range")
		chs := []chan struct{}{make(chan struct{}), make(chan struct{})}
		go func() {
			defer close(chs[0])
			lg.add(core.Ev{"ev": "inv", "t": 1, "op": "Apply", "a": core.Ev{"add": core.Seq([]int{1, 2}), "del": core.Seq([]int{})}})
			m := s.Apply(ds.NewSetMutations[int]().WithAddedElements(&gatedAdds{Set: mkSet(1, 2), gate: gate}))
			lg.add(core.Ev{"ev": "ret", "t": 1, "res": core.Ev{"added": sortedInts(m.AddedElements()), "deleted": sortedInts(m.DeletedElements())}})
		}()
		sched.Quiesce(2 * time.Second)
		go func() {
			defer close(chs[1])
			switch second {
			case "Apply":
				lg.add(core.Ev{"ev": "inv", "t": 2, "op": "Apply", "a": core.Ev{"add": core.Seq([]int{1, 2}), "del": core.Seq([]int{})}})
				m := s.Apply(ds.NewSetMutations[int]().WithAddedElements(mkSet(1, 2)))
				lg.add(core.Ev{"ev": "ret", "t": 2, "res": core.Ev{"added": sortedInts(m.AddedElements()), "deleted": sortedInts(m.DeletedElements())}})
			case "Add":
				lg.add(core.Ev{"ev": "inv", "t": 2, "op": "Add", "a": 2})
				lg.add(core.Ev{"ev": "ret", "t": 2, "res": s.Add(2)})
			case "Delete":
				lg.add(core.Ev{"ev": "inv", "t": 2, "op": "Delete", "a": 1})
				lg.add(core.Ev{"ev": "ret", "t": 2, "res": s.Delete(1)})
			case "Toggle":
				lg.add(core.Ev{"ev": "inv", "t": 2, "op": "Toggle", "a": 2})
				m := s.Compute(func(cur ds.ReadableSet[int]) ds.SetMutations[int] {
					if cur.Has(2) {
						return ds.NewSetMutations[int]().WithDeletedElements(mkSet(2))
					}
					return ds.NewSetMutations[int]().WithAddedElements(mkSet(2))
				})
				lg.add(core.Ev{"ev": "ret", "t": 2, "res": core.Ev{"added": sortedInts(m.AddedElements()), "deleted": sortedInts(m.DeletedElements())}})
			}
		}()
		sched.Quiesce(2 * time.Second)
		gate.ReleaseAll()
		hung := waitAll(chs, 3*time.Second)
		hangs += len(hung)
		emit(enc, lg, s, hung, true)
	}

	// forced schedule: a Delete is held between its presence pre-check and the write lock (hook delete-after-precheck of the
	// ordered map below the set) while the element is removed and added again; the
	// Delete goes on; one more element is added afterwards.  Results and final contents (read by iterating) must fit one order.
	orderedmap.VerifHook = nil
	for _, second := range []string{"Delete"} { // (a Replace would have to wait: Set.Delete holds the set's read lock)
		for _, first := range []int{1, 2} {
			lg := &hlog{}
			s := ds.NewSet[int]()
			for _, x := range []int{1, 2} {
				lg.add(core.Ev{"ev": "inv", "t": 6, "op": "Add", "a": x})
				lg.add(core.Ev{"ev": "ret", "t": 6, "res": s.Add(x)})
			}
			gate := sched.NewGate()
			orderedmap.VerifHook = func(p string) { gate.Wait(p) }
			gate.Hold("delete-after-precheck")
			chs := []chan struct{}{make(chan struct{})}
			go func() {
				defer close(chs[0])
				lg.add(core.Ev{"ev": "inv", "t": 1, "op": "Delete", "a": first})
				lg.add(core.Ev{"ev": "ret", "t": 1, "res": s.Delete(first)})
			}()
			for i := 0; i < 2000 && gate.Parked("delete-after-precheck") == 0; i++ {
				time.Sleep(time.Millisecond)
			}
			gate.Free("delete-after-precheck")
			if second == "Delete" {
				lg.add(core.Ev{"ev": "inv", "t": 2, "op": "Delete", "a": first})
				lg.add(core.Ev{"ev": "ret", "t": 2, "res": s.Delete(first)})
			} else {
				lg.add(core.Ev{"ev": "inv", "t": 2, "op": "Replace", "a": []any{}})
				lg.add(core.Ev{"ev": "ret", "t": 2, "res": sortedInts(s.Replace(mkSet()))})
			}
			lg.add(core.Ev{"ev": "inv", "t": 3, "op": "Add", "a": first})
			lg.add(core.Ev{"ev": "ret", "t": 3, "res": s.Add(first)})
			gate.ReleaseAll()
			hung := waitAll(chs, 3*time.Second)
			hangs += len(hung)
			if len(hung) == 0 {
				lg.add(core.Ev{"ev": "inv", "t": 6, "op": "Add", "a": 3})
				lg.add(core.Ev{"ev": "ret", "t": 6, "res": s.Add(3)})
				lg.add(core.Ev{"ev": "inv", "t": 6, "op": "Size", "a": 0})
				lg.add(core.Ev{"ev": "ret", "t": 6, "res": s.Size()})
			}
			emit(enc, lg, s, hung, true)
			orderedmap.VerifHook = nil
		}
	}

	// forced schedule: a Replace that keeps its elements is held between clearing the set and adding the new elements (hook
	// set-replace-cleared) while another caller deletes / adds / looks up / toggles an element (mutators have to wait for
	// the Replace; a reader may see the intermediate contents); the Replace goes on.
	for _, second := range []string{"Delete", "Add", "Has", "Toggle"} {
		lg := &hlog{}
		s := ds.NewSet[int]()
		for _, x := range []int{1, 2} {
			lg.add(core.Ev{"ev": "inv", "t": 6, "op": "Add", "a": x})
			lg.add(core.Ev{"ev": "ret", "t": 6, "res": s.Add(x)})
		}
		gate := sched.NewGate()
		ds.VerifHook = func(p string) {
			if p == "set-replace-cleared" {
				gate.Wait(p)
			}
		}
		gate.Hold("set-replace-cleared")
		chs := []chan struct{}{make(chan struct{}), make(chan struct{})}
		go func() {
			defer close(chs[0])
			lg.add(core.Ev{"ev": "inv", "t": 1, "op": "Replace", "a": core.Seq([]int{1, 2})})
			r := s.Replace(mkSet(1, 2))
			lg.add(core.Ev{"ev": "ret", "t": 1, "res": sortedInts(r)})
		}()
		for i := 0; i < 2000 && gate.Parked("set-replace-cleared") == 0; i++ {
			time.Sleep(time.Millisecond)
		}
		go func() {
			defer close(chs[1])
			switch second {
			case "Delete":
				lg.add(core.Ev{"ev": "inv", "t": 2, "op": "Delete", "a": 1})
				lg.add(core.Ev{"ev": "ret", "t": 2, "res": s.Delete(1)})
			case "Add":
				lg.add(core.Ev{"ev": "inv", "t": 2, "op": "Add", "a": 2})
				lg.add(core.Ev{"ev": "ret", "t": 2, "res": s.Add(2)})
			case "Has":
				lg.add(core.Ev{"ev": "inv", "t": 2, "op": "Has", "a": 1})
				lg.add(core.Ev{"ev": "ret", "t": 2, "res": s.Has(1)})
			case "Toggle":
				lg.add(core.Ev{"ev": "inv", "t": 2, "op": "Toggle", "a": 1})
				m := s.Compute(func(cur ds.ReadableSet[int]) ds.SetMutations[int] {
					if cur.Has(1) {
						return ds.NewSetMutations[int]().WithDeletedElements(mkSet(1))
					}
					return ds.NewSetMutations[int]().WithAddedElements(mkSet(1))
				})
				lg.add(core.Ev{"ev": "ret", "t": 2, "res": core.Ev{"added": sortedInts(m.AddedElements()), "deleted": sortedInts(m.DeletedElements())}})
			}
		}()
		select {
		case <-chs[1]:
		case <-time.After(50 * time.Millisecond): // (a mutator rightly waits for the Replace to finish)
		}
		gate.ReleaseAll()
		hung := waitAll(chs, 3*time.Second)
		hangs += len(hung)
		emit(enc, lg, s, hung, true)
		ds.VerifHook = nil
	}

	// linearizability histories
	for h := 0; h < *hist; h++ {
		if h%5 == 4 {
			runtime.GOMAXPROCS(1)
		} else {
			runtime.GOMAXPROCS(16)
		}
		lg := &hlog{}
		s := ds.NewSet[int]()
		nt := 2 + rng.Intn(3)
		per := 4 + rng.Intn(6)
		if h%7 == 6 {
			nt, per = 6, 3
		}
		chs := make([]chan struct{}, nt)
		for t := 1; t <= nt; t++ {
			t := t
			chs[t-1] = make(chan struct{})
			rg := rand.New(rand.NewSource(rng.Int63()))
			go func() {
				defer close(chs[t-1])
				for i := 0; i < per; i++ {
					linCall(lg, s, t, rg)
					if rg.Intn(3) == 0 {
						runtime.Gosched()
					}
				}
			}()
		}
		hung := waitAll(chs, 10*time.Second)
		hangs += len(hung)
		emit(enc, lg, s, hung, true)
	}

	// mixes of ALL methods (incl. the non-atomic AddAll/DeleteAll and the algebra) under a watchdog: every method returns
	for m := 0; m < *mixes; m++ {
		runtime.GOMAXPROCS(16)
		s := ds.NewSet(1, 2)
		nt := 3 + rng.Intn(4)
		chs := make([]chan struct{}, nt)
		for t := 1; t <= nt; t++ {
			t := t
			chs[t-1] = make(chan struct{})
			rg := rand.New(rand.NewSource(rng.Int63()))
			go func() {
				defer close(chs[t-1])
				for i := 0; i < 30; i++ {
					other := mkSet(randElems(rg)...)
					switch rg.Intn(14) {
					case 0:
						s.Add(1 + rg.Intn(3))
					case 1:
						s.Delete(1 + rg.Intn(3))
					case 2:
						s.AddAll(other)
					case 3:
						s.DeleteAll(other)
					case 4:
						s.Apply(ds.NewSetMutations[int]().WithAddedElements(other).WithDeletedElements(mkSet(randElems(rg)...)))
					case 5:
						s.Compute(func(cur ds.ReadableSet[int]) ds.SetMutations[int] {
							return ds.NewSetMutations[int]().WithDeletedElements(cur.Clone())
						})
					case 6:
						s.Replace(other)
					case 7:
						s.HasAll(other)
					case 8:
						s.Equals(other)
					case 9:
						s.Intersect(other)
					case 10:
						s.Filter(func(x int) bool { return x%2 == 0 })
					case 11:
						s.Clone()
					case 12:
						s.ToSlice()
					case 13:
						_ = s.ForEach(func(int) error { runtime.Gosched(); return nil })
					}
				}
			}()
		}
		hung := waitAll(chs, 10*time.Second)
		hangs += len(hung)
		_ = enc.Encode(core.Ev{"ev": "reset"})
		_ = enc.Encode(core.Ev{"ev": "final", "hung": core.Seq(hung), "contents": []any{}, "scenario": "mix"})
		_ = t0
	}
	runtime.GOMAXPROCS(16)
	fmt.Printf("{\"histories\": %d, \"mixes\": %d, \"hangs\": %d}\n", *hist, *mixes, hangs)
	return 0
}

var t0 = time.Now()
