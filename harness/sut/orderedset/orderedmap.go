// Package orderedset adapts ds/orderedmap (through ds/serializableorderedmap), ds.Set and
// ds.SetArithmetic (property C11) to their TLA+ modules in spec/orderedset.
package orderedset

import (
	"fmt"
	"math/rand"

	"github.com/iotaledger/hive.go/ds/orderedmap"
	"github.com/iotaledger/hive.go/ds/serializableorderedmap"
	"github.com/iotaledger/hive.go/serializer/v2/serix"

	"verifharness/core"
)

const (
	omKeys = 3 // NK of OrderedMap.trace.cfg
	omVals = 3 // Vals = 1..3 of OrderedMap.trace.cfg
)

// api is a private serix API (strings need a length prefix type; the default API is left alone).
var api = func() *serix.API {
	a := serix.NewAPI()
	if err := a.RegisterTypeSettings("", serix.TypeSettings{}.WithLengthPrefixType(serix.LengthPrefixTypeAsByte)); err != nil {
		panic(err)
	}

	return a
}()

// omImpl is the key-type specific half of the adapter (model keys are 1..NK).
type omImpl interface {
	apply(e core.Ev) any
	st() any
}

type omSUT struct {
	impl omImpl
}

func init() { core.Register("OrderedMap", func() core.SUT { return &omSUT{} }) }

func (s *omSUT) Reset(cfg core.Ev) {
	switch kt := core.Str(cfg, "kt"); kt {
	case "u8":
		s.impl = newOM[uint8](func(k int) uint8 { return uint8(k) * 85 }, func(k uint8) int { return int(k) / 85 }) // 85, 170, 255
	case "str":
		// the empty string and a key with a 0xff byte among them
		keys := []string{"", "b", "\xffz"}
		s.impl = newOM[string](func(k int) string { return keys[k-1] }, func(k string) int {
			for i, x := range keys {
				if x == k {
					return i + 1
				}
			}

			return -1
		})
	default:
		panic("unknown key type " + kt)
	}
}

func (s *omSUT) Apply(e core.Ev) (any, any) { return s.impl.apply(e), s.impl.st() }

func (s *omSUT) RandomCfg(r *rand.Rand) core.Ev {
	return core.Ev{"kt": core.Pick(r, "u8", "str")}
}

func (s *omSUT) RandomStimulus(r *rand.Rand) core.Ev {
	k, v := 1+r.Intn(omKeys), 1+r.Intn(omVals)
	switch r.Intn(20) {
	case 0, 1, 2, 3, 4:
		return core.Ev{"op": "Set", "k": k, "v": v}
	case 5, 6, 7:
		return core.Ev{"op": "Delete", "k": k}
	case 8:
		return core.Ev{"op": "Get", "k": k}
	case 9:
		return core.Ev{"op": "Has", "k": k}
	case 10:
		return core.Ev{"op": core.Pick(r, "Size", "IsEmpty", "Head", "Tail")}
	case 11:
		if r.Intn(2) == 0 {
			return core.Ev{"op": "ForEachMut", "fwd": r.Intn(2) == 0, "at": 1 + r.Intn(omKeys), "mut": "del", "k": k, "v": 0}
		}
		return core.Ev{"op": "ForEachMut", "fwd": r.Intn(2) == 0, "at": 1 + r.Intn(omKeys), "mut": "set", "k": k, "v": v}
	case 12:
		return core.Ev{"op": "ForEach", "n": r.Intn(omKeys + 1)}
	case 13, 14:
		return core.Ev{"op": "ForEachReverse", "n": r.Intn(omKeys + 1)}
	case 15:
		if r.Intn(4) == 0 {
			return core.Ev{"op": "Clear"}
		}

		return core.Ev{"op": "RoundTrip"}
	case 16, 17:
		return core.Ev{"op": "Clone", "k": k, "v": v}
	}

	return core.Ev{"op": "DecodeInto", "a": randDistinct(r, omKeys), "v": v}
}

// randDistinct returns a random sequence of distinct numbers of 1..n (any length 0..n).
func randDistinct(r *rand.Rand, n int) []any {
	p := r.Perm(n)[:r.Intn(n+1)]
	out := make([]any, len(p))
	for i, x := range p {
		out[i] = x + 1
	}

	return out
}

// om is the adapter for one real key type K; values are uint16.
type om[K comparable] struct {
	m    *serializableorderedmap.SerializableOrderedMap[K, uint16]
	key  func(int) K
	back func(K) int
}

func newOM[K comparable](key func(int) K, back func(K) int) *om[K] {
	return &om[K]{m: serializableorderedmap.New[K, uint16](), key: key, back: back}
}

func (o *om[K]) pair(k K, v uint16) any { return []any{o.back(k), int(v)} }

// iterate runs ForEach / ForEachReverse with a consumer that returns false at its n-th call.
func (o *om[K]) iterate(it func(func(K, uint16) bool) bool, n int) (seq []any, done bool) {
	seq = []any{}
	calls := 0
	done = it(func(k K, v uint16) bool {
		seq = append(seq, o.pair(k, v))
		calls++

		return calls != n
	})

	return seq, done
}

func (o *om[K]) proj(m *orderedmap.OrderedMap[K, uint16]) core.Ev {
	fwd, _ := o.iterate(m.ForEach, 0)
	rev, _ := o.iterate(m.ForEachReverse, 0)

	return core.Ev{"fwd": fwd, "rev": rev, "size": m.Size()}
}

func (o *om[K]) st() any {
	st := o.proj(o.m.OrderedMap)
	st["empty"] = o.m.IsEmpty()
	has, get := []any{}, []any{}
	for k := 1; k <= omKeys; k++ {
		has = append(has, o.m.Has(o.key(k)))
		v, ok := o.m.Get(o.key(k))
		get = append(get, core.Opt(ok, int(v)))
	}
	st["has"], st["get"] = has, get
	hk, hv, hok := o.m.Head()
	st["head"] = core.Opt(hok, o.pair(hk, hv))
	tk, tv, tok := o.m.Tail()
	st["tail"] = core.Opt(tok, o.pair(tk, tv))

	return st
}

func (o *om[K]) apply(e core.Ev) any {
	switch op := core.Str(e, "op"); op {
	case "Set":
		prev, existed := o.m.Set(o.key(core.Int(e, "k")), uint16(core.Int(e, "v")))
		return core.Opt(existed, int(prev))
	case "Get":
		v, ok := o.m.Get(o.key(core.Int(e, "k")))
		return core.Opt(ok, int(v))
	case "Has":
		return o.m.Has(o.key(core.Int(e, "k")))
	case "Delete":
		return o.m.Delete(o.key(core.Int(e, "k")))
	case "Size":
		return o.m.Size()
	case "IsEmpty":
		return o.m.IsEmpty()
	case "Head":
		k, v, ok := o.m.Head()
		return core.Opt(ok, o.pair(k, v))
	case "Tail":
		k, v, ok := o.m.Tail()
		return core.Opt(ok, o.pair(k, v))
	case "ForEach":
		seq, done := o.iterate(o.m.ForEach, core.Int(e, "n"))
		return core.Ev{"seq": seq, "done": done}
	case "ForEachReverse":
		seq, done := o.iterate(o.m.ForEachReverse, core.Int(e, "n"))
		return core.Ev{"seq": seq, "done": done}
	case "ForEachMut":
		// an iteration whose consumer changes the map at its at-th call
		it := o.m.ForEach
		if !core.Bool(e, "fwd") {
			it = o.m.ForEachReverse
		}
		seq, calls := []any{}, 0
		done := it(func(k K, v uint16) bool {
			seq = append(seq, o.pair(k, v))
			calls++
			if calls == core.Int(e, "at") {
				if core.Str(e, "mut") == "del" {
					o.m.Delete(o.key(core.Int(e, "k")))
				} else {
					o.m.Set(o.key(core.Int(e, "k")), uint16(core.Int(e, "v")))
				}
			}
			return calls < 64 // (a walk that does not end is cut off)
		})
		return core.Ev{"seq": seq, "done": done}
	case "Clear":
		o.m.Clear()
		return true
	case "Clone":
		c := o.m.Clone()
		before := o.proj(c)
		c.Delete(o.key(core.Int(e, "k")))
		c.Set(o.key(core.Int(e, "k")), uint16(core.Int(e, "v")))

		return core.Ev{"c": before, "c2": o.proj(c)}
	case "RoundTrip":
		b, err := o.m.Encode(api)
		if err != nil {
			return core.Ev{"ok": false, "err": err.Error()}
		}
		dec := serializableorderedmap.New[K, uint16]()
		n, err := dec.Decode(api, b)

		return core.Ev{"ok": err == nil && n == len(b), "dec": o.proj(dec.OrderedMap)}
	case "DecodeInto":
		src := serializableorderedmap.New[K, uint16]()
		for _, k := range core.Ints(e, "a") {
			src.Set(o.key(k), uint16(core.Int(e, "v")))
		}
		b, err := src.Encode(api)
		if err != nil {
			return fmt.Sprintf("encode: %v", err)
		}
		n, err := o.m.Decode(api, b)

		return err == nil && n == len(b)
	default:
		panic("unknown op " + op)
	}
}
