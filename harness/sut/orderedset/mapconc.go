package orderedset

// OrderedMap <-> spec/orderedset/MapLin.tla: concurrent histories of the real orderedmap.OrderedMap (invoke/return
// events under one log mutex), forced schedules at the map's yield point, and what the map shows at the end.
//
//	h mapconc -seed S -histories N -out trace.ndjson

import (
	"bufio"
	"encoding/json"
	"flag"
	"fmt"
	"math/rand"
	"os"
	"runtime"
	"time"

	"github.com/iotaledger/hive.go/ds/orderedmap"

	"verifharness/core"
	"verifharness/sched"
)

func init() { core.RegisterCommand("mapconc", mapConc) }

type omap = *orderedmap.OrderedMap[int, int]

func pair(k, v int) []any { return []any{k, v} }

func entry(k, v int, ok bool) []any {
	if !ok {
		return []any{0, 0, false}
	}
	return []any{k, v, true}
}

// mapCall: one call of thread t, logged as inv/ret
func mapCall(lg *hlog, m omap, t int, op string, k, v int) {
	switch op {
	case "Set":
		lg.add(core.Ev{"ev": "inv", "t": t, "op": op, "a": pair(k, v)})
		p, ex := m.Set(k, v)
		if !ex {
			p = 0
		}
		lg.add(core.Ev{"ev": "ret", "t": t, "res": []any{p, ex}})
	case "Delete":
		lg.add(core.Ev{"ev": "inv", "t": t, "op": op, "a": k})
		lg.add(core.Ev{"ev": "ret", "t": t, "res": m.Delete(k)})
	case "Has":
		lg.add(core.Ev{"ev": "inv", "t": t, "op": op, "a": k})
		lg.add(core.Ev{"ev": "ret", "t": t, "res": m.Has(k)})
	case "Get":
		lg.add(core.Ev{"ev": "inv", "t": t, "op": op, "a": k})
		x, ok := m.Get(k)
		if !ok {
			x = 0
		}
		lg.add(core.Ev{"ev": "ret", "t": t, "res": []any{x, ok}})
	case "Size":
		lg.add(core.Ev{"ev": "inv", "t": t, "op": op, "a": 0})
		lg.add(core.Ev{"ev": "ret", "t": t, "res": m.Size()})
	case "Clear":
		lg.add(core.Ev{"ev": "inv", "t": t, "op": op, "a": 0})
		m.Clear()
		lg.add(core.Ev{"ev": "ret", "t": t, "res": 0})
	case "Head":
		lg.add(core.Ev{"ev": "inv", "t": t, "op": op, "a": 0})
		hk, hv, ok := m.Head()
		lg.add(core.Ev{"ev": "ret", "t": t, "res": entry(hk, hv, ok)})
	case "Tail":
		lg.add(core.Ev{"ev": "inv", "t": t, "op": op, "a": 0})
		tk, tv, ok := m.Tail()
		lg.add(core.Ev{"ev": "ret", "t": t, "res": entry(tk, tv, ok)})
	default:
		panic("mapconc: op " + op)
	}
}

// emitMap writes one history; the final line is what the quiescent map shows (iterations cut off after 64 entries).
func emitMap(enc *json.Encoder, lg *hlog, m omap, hung []int) {
	lg.mu.Lock()
	defer lg.mu.Unlock()
	_ = enc.Encode(core.Ev{"ev": "reset"})
	for _, e := range lg.evs {
		_ = enc.Encode(e)
	}
	fin := core.Ev{"ev": "final", "hung": core.Seq(hung), "fwd": []any{}, "bwd": []any{}, "size": 0, "head": entry(0, 0, false), "tail": entry(0, 0, false)}
	if len(hung) == 0 {
		fwd, bwd := []any{}, []any{}
		m.ForEach(func(k, v int) bool { fwd = append(fwd, pair(k, v)); return len(fwd) < 64 })
		m.ForEachReverse(func(k, v int) bool { bwd = append(bwd, pair(k, v)); return len(bwd) < 64 })
		hk, hv, hok := m.Head()
		tk, tv, tok := m.Tail()
		fin["fwd"], fin["bwd"], fin["size"], fin["head"], fin["tail"] = fwd, bwd, m.Size(), entry(hk, hv, hok), entry(tk, tv, tok)
	}
	_ = enc.Encode(fin)
}

func mapConc(args []string) int {
	fs := flag.NewFlagSet("mapconc", flag.ExitOnError)
	seed := fs.Int64("seed", 1, "")
	hist := fs.Int("histories", 60, "")
	out := fs.String("out", "", "")
	_ = fs.Parse(args)
	f, err := os.Create(*out)
	if err != nil {
		fmt.Fprintln(os.Stderr, err)
		return 2
	}
	defer f.Close()
	w := bufio.NewWriter(f)
	defer w.Flush()
	enc := json.NewEncoder(w)
	rng := rand.New(rand.NewSource(*seed))
	hangs, n := 0, 0

	// forced schedules: a Delete is held between its presence pre-check and the write lock (hook delete-after-precheck)
	// while other callers remove the key (Delete or Clear) and set it again; the Delete goes on; one more key is set.
	for _, second := range []string{"Delete", "Clear", "none"} {
		for _, first := range []int{1, 2, 3} {
			lg := &hlog{}
			m := orderedmap.New[int, int]()
			for _, k := range []int{1, 2, 3} {
				mapCall(lg, m, 6, "Set", k, 10*k)
			}
			gate := sched.NewGate()
			orderedmap.VerifHook = func(p string) { gate.Wait(p) }
			gate.Hold("delete-after-precheck")
			ch := make(chan struct{})
			go func() { defer close(ch); mapCall(lg, m, 1, "Delete", first, 0) }()
			for i := 0; i < 2000 && gate.Parked("delete-after-precheck") == 0; i++ {
				time.Sleep(time.Millisecond)
			}
			gate.Free("delete-after-precheck")
			if second != "none" {
				mapCall(lg, m, 2, second, first, 0)
			}
			mapCall(lg, m, 3, "Set", first, 77)
			gate.ReleaseAll()
			hung := waitAll([]chan struct{}{ch}, 3*time.Second)
			hangs += len(hung)
			if len(hung) == 0 {
				mapCall(lg, m, 6, "Set", 4, 40)
				mapCall(lg, m, 6, "Size", 0, 0)
			}
			emitMap(enc, lg, m, hung)
			orderedmap.VerifHook = nil
			n++
		}
	}

	// free-running histories: 2-4 threads, keys 1..3, every written value distinct
	for h := 0; h < *hist; h++ {
		if h%5 == 4 {
			runtime.GOMAXPROCS(1)
		} else {
			runtime.GOMAXPROCS(16)
		}
		lg := &hlog{}
		m := orderedmap.New[int, int]()
		nt, per := 2+rng.Intn(3), 3+rng.Intn(4)
		chs := make([]chan struct{}, nt)
		start := make(chan struct{})
		for t := 1; t <= nt; t++ {
			t := t
			rg := rand.New(rand.NewSource(rng.Int63()))
			chs[t-1] = make(chan struct{})
			go func() {
				defer close(chs[t-1])
				<-start
				for i := 1; i <= per; i++ {
					k := 1 + rg.Intn(3)
					switch c := rg.Intn(20); {
					case c < 7:
						mapCall(lg, m, t, "Set", k, 100*t+i)
					case c < 12:
						mapCall(lg, m, t, "Delete", k, 0)
					case c < 14:
						mapCall(lg, m, t, "Get", k, 0)
					case c < 15:
						mapCall(lg, m, t, "Has", k, 0)
					case c < 16:
						mapCall(lg, m, t, "Size", 0, 0)
					case c < 17:
						mapCall(lg, m, t, "Clear", 0, 0)
					case c < 18:
						mapCall(lg, m, t, "Head", 0, 0)
					default:
						mapCall(lg, m, t, "Tail", 0, 0)
					}
					if rg.Intn(3) == 0 {
						runtime.Gosched()
					}
				}
			}()
		}
		close(start)
		hung := waitAll(chs, 5*time.Second)
		hangs += len(hung)
		emitMap(enc, lg, m, hung)
		n++
	}
	runtime.GOMAXPROCS(16)
	fmt.Printf("{\"histories\": %d, \"hangs\": %d}\n", n, hangs)
	return 0
}
