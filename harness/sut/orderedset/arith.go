package orderedset

import (
	"math/rand"

	"github.com/iotaledger/hive.go/ds"

	"verifharness/core"
)

// arithSUT binds ds.SetArithmetic to SetArith.tla. The adapter plays the caller the API is made
// for: it keeps a real set `derived` by applying every mutation the arithmetic returns, and a
// caller-owned mutations object `m` fed by the two collectors.
type arithSUT struct {
	arith     ds.SetArithmetic[el]
	threshold []int               // optional threshold argument (cfg.t = 0: omitted)
	derived   ds.Set[el]          // threshold set at the time m was created
	m         ds.SetMutations[el] // accumulates collector calls
	n         int                 // universe used by the recorder
}

func init() { core.Register("SetArith", func() core.SUT { return &arithSUT{n: 3} }) }

func (s *arithSUT) Reset(cfg core.Ev) {
	s.arith = ds.NewSetArithmetic[el]()
	s.threshold = nil
	if t := core.Int(cfg, "t"); t != 0 {
		s.threshold = []int{t}
	}
	s.derived = ds.NewSet[el]()
	s.m = ds.NewSetMutations[el]()
}

func mutationsOf(a, d []int) ds.SetMutations[el] {
	return ds.NewSetMutations[el]().WithAddedElements(plain(a)).WithDeletedElements(ordered(d))
}

func (s *arithSUT) st() any {
	// what the caller would have after applying the pending mutations m
	cur := s.derived.Clone()
	cur.Apply(s.m)
	m := mutations(s.m)
	delete(m, "empty")

	return core.Ev{"derived": sortedSet(cur), "m": m}
}

// commit applies the pending caller-owned mutations and starts a new object.
func (s *arithSUT) commit() {
	s.derived.Apply(s.m)
	s.m = ds.NewSetMutations[el]()
}

func (s *arithSUT) Apply(e core.Ev) (any, any) {
	var res any
	switch op := core.Str(e, "op"); op {
	case "Add", "Subtract":
		s.commit()
		var out ds.SetMutations[el]
		if op == "Add" {
			out = s.arith.Add(mutationsOf(core.Ints(e, "a"), core.Ints(e, "d")), s.threshold...)
		} else {
			out = s.arith.Subtract(mutationsOf(core.Ints(e, "a"), core.Ints(e, "d")), s.threshold...)
		}
		r := mutations(out)
		delete(r, "empty")
		res = r
		s.derived.Apply(out)
	case "CollectAdd":
		s.arith.AddedElementsCollector(s.m, s.threshold...)(toEl(core.Int(e, "e")))
		r := mutations(s.m)
		delete(r, "empty")
		res = r
	case "CollectSub":
		s.arith.SubtractedElementsCollector(s.m, s.threshold...)(toEl(core.Int(e, "e")))
		r := mutations(s.m)
		delete(r, "empty")
		res = r
	case "NewM":
		s.commit()
		res = true
	default:
		panic("unknown op " + op)
	}

	return res, s.st()
}

func (s *arithSUT) RandomCfg(r *rand.Rand) core.Ev { return core.Ev{"t": r.Intn(4)} }

func (s *arithSUT) RandomStimulus(r *rand.Rand) core.Ev {
	switch r.Intn(10) {
	case 0, 1, 2:
		return core.Ev{"op": "Add", "a": randSubset(r, s.n), "d": randSubset(r, s.n)}
	case 3, 4:
		return core.Ev{"op": "Subtract", "a": randSubset(r, s.n), "d": randSubset(r, s.n)}
	case 5, 6:
		return core.Ev{"op": "CollectAdd", "e": 1 + r.Intn(s.n)}
	case 7, 8:
		return core.Ev{"op": "CollectSub", "e": 1 + r.Intn(s.n)}
	}

	return core.Ev{"op": "NewM"}
}
