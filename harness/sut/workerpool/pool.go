// Package workerpool adapts runtime/workerpool (property C16) to its TLA+ modules.
package workerpool

import (
	"fmt"
	"math/rand"
	"sort"
	"sync"
	"sync/atomic"
	"time"

	hive "github.com/iotaledger/hive.go/runtime/workerpool"

	"verifharness/core"
	"verifharness/sched"
)

func init() { core.Register("WorkerPool", func() core.SUT { return &poolSUT{nthr: 3} }) }

type poolSUT struct {
	p        *hive.WorkerPool
	gate     *sched.Gate
	threads  map[int]*sched.Thread
	nthr     int
	maxTasks int
	workers  int

	mu      sync.Mutex
	nsub    int
	started map[int]int // task id -> times its body started
	ran     map[int]int // task id -> times its body finished
	parked  map[int]bool
	incs    atomic.Int64 // increases of the pending counter
	rmu     sync.Mutex
	heldRes map[int]*any // thread -> result slot of its Submit that is held at the yield point
	gids    map[int64]int
}

func settle() {
	if !sched.Quiesce(5 * time.Second) {
		panic("process did not become quiescent within 5s")
	}
}

func (s *poolSUT) tidOf(gid int64) int {
	s.mu.Lock()
	defer s.mu.Unlock()
	return s.gids[gid]
}

func (s *poolSUT) Reset(cfg core.Ev) {
	s.drain()
	hive.VerifHook = func(point string) {
		if g := s.gate; g != nil {
			// one stopping point per harness thread (tasks that submit from worker goroutines are thread 0: never held)
			g.Wait(fmt.Sprintf("hook:%s:%d", point, s.tidOf(sched.Gid())))
		}
	}
	s.workers = core.Int(cfg, "workers")
	s.maxTasks = core.Int(cfg, "maxTasks")
	s.p = hive.New("sut", hive.WithWorkerCount(s.workers), hive.WithCancelPendingTasksOnShutdown(core.Bool(cfg, "cancel")))
	s.gate = sched.NewGate()
	s.nsub = 0
	s.started, s.ran, s.parked = map[int]int{}, map[int]int{}, map[int]bool{}
	s.incs.Store(0)
	incs := &s.incs
	s.p.PendingTasksCounter.Subscribe(func(o, n int) {
		if n > o {
			incs.Add(1)
		}
	})
	s.threads = map[int]*sched.Thread{}
	s.mu.Lock()
	s.gids = map[int64]int{}
	for i := 1; i <= s.nthr; i++ {
		s.threads[i] = sched.NewThread(i)
		s.gids[s.threads[i].GID()] = i
	}
	s.heldRes = map[int]*any{}
	s.mu.Unlock()
}

// drain lets everything of the abandoned pool finish (best effort).
func (s *poolSUT) drain() {
	if s.p == nil {
		return
	}
	s.gate.ReleaseAll()
	h := sched.NewThread(99)
	p := s.p
	h.Go(func() any { p.Shutdown(); return nil })
	settle()
	h.Abandon()
	for _, t := range s.threads {
		t.Abandon()
	}
}

func point(id int) string { return fmt.Sprintf("task-%d", id) }

// body returns the task function for task id.
func (s *poolSUT) body(id int, kind string) func() {
	return func() {
		s.mu.Lock()
		s.started[id]++
		child := 0
		if kind == "spawn" && s.nsub < s.maxTasks {
			s.nsub++
			child = s.nsub
		}
		s.parked[id] = true
		s.mu.Unlock()
		if child != 0 {
			s.p.Submit(s.body(child, "plain"))
		}
		s.gate.Wait(point(id))
		s.mu.Lock()
		delete(s.parked, id)
		s.ran[id]++
		s.mu.Unlock()
	}
}

func (s *poolSUT) Apply(e core.Ev) (any, any) {
	p := s.p
	var r any = ""
	rp := &r
	if core.Str(e, "op") == "SubmitBegin" {
		slot := new(any)
		*slot = ""
		s.heldRes[core.Int(e, "t")] = slot
		rp = slot
	}
	rmu := &s.rmu
	switch op := core.Str(e, "op"); op {
	case "Release":
		if !s.gate.Release(point(core.Int(e, "id"))) {
			panic(fmt.Sprintf("task %d is not parked", core.Int(e, "id")))
		}
	default:
		t := s.threads[core.Int(e, "t")]
		var f func() any
		switch op {
		case "Start":
			f = func() any { p.Start(); return nil }
		case "Shutdown":
			f = func() any { p.Shutdown(); return nil }
		case "WaitShutdown":
			f = func() any { p.ShutdownComplete.Wait(); return nil }
		case "WaitIsZero":
			f = func() any { p.PendingTasksCounter.WaitIsZero(); return nil }
		case "SubmitEnd":
			// the held Submit continues; its thread is already inside the call
			tid := core.Int(e, "t")
			pt := fmt.Sprintf("hook:submit-after-running-check:%d", tid)
			s.gate.Free(pt)
			if !s.gate.Release(pt) {
				panic("no Submit of that thread is held at the yield point")
			}
			settle()
			return s.observe(rmu, s.heldRes[tid])
		case "Submit", "SubmitBegin":
			if op == "SubmitBegin" {
				s.gate.Hold(fmt.Sprintf("hook:submit-after-running-check:%d", core.Int(e, "t")))
			}
			kind := core.Str(e, "k")
			s.mu.Lock()
			s.nsub++
			id := s.nsub
			s.mu.Unlock()
			s.gate.Hold(point(id))
			for c := id + 1; c <= s.maxTasks+1; c++ {
				s.gate.Hold(point(c))
			}
			f = func() any {
				before := s.incs.Load()
				p.Submit(s.body(id, kind))
				rmu.Lock()
				if s.incs.Load() > before {
					*rp = "accepted"
				} else {
					*rp = "refused"
				}
				rmu.Unlock()
				return nil
			}
		default:
			panic("unknown op " + op)
		}
		t.Go(f)
	}
	settle()
	if core.Str(e, "op") == "SubmitBegin" {
		s.gate.Free(fmt.Sprintf("hook:submit-after-running-check:%d", core.Int(e, "t")))
	}
	return s.observe(rmu, rp)
}

func (s *poolSUT) observe(rmu *sync.Mutex, rp *any) (any, any) {
	p := s.p
	ret, blocked := []int{}, []int{}
	for id := 1; id <= s.nthr; id++ {
		th := s.threads[id]
		if fin, _, pan := th.Take(); fin {
			if pan != nil {
				panic(pan)
			}
			ret = append(ret, id)
		} else if th.Busy() {
			blocked = append(blocked, id)
		}
	}
	s.mu.Lock()
	started, ran := []int{}, []int{}
	for id := range s.parked {
		started = append(started, id)
	}
	for id, n := range s.ran {
		for i := 0; i < n; i++ {
			ran = append(ran, id)
		}
	}
	for id, n := range s.started { // a body that started twice is reported twice
		for i := 1; i < n; i++ {
			ran = append(ran, id)
		}
	}
	s.mu.Unlock()
	sort.Ints(started)
	sort.Ints(ran)
	rmu.Lock()
	defer rmu.Unlock()
	r := *rp
	return core.Ev{"r": r, "ret": core.SortedInts(ret)},
		core.Ev{"pending": p.PendingTasksCounter.Get(), "started": core.Seq(started), "ran": core.Seq(ran), "blocked": core.SortedInts(blocked)}
}

func (s *poolSUT) RandomCfg(r *rand.Rand) core.Ev {
	return core.Ev{"workers": 1 + r.Intn(3), "cancel": r.Intn(2) == 0, "maxTasks": 6}
}

func (s *poolSUT) RandomStimulus(r *rand.Rand) core.Ev {
	var idle []int
	for id := 1; id <= s.nthr; id++ {
		if !s.threads[id].Busy() {
			idle = append(idle, id)
		}
	}
	s.mu.Lock()
	var parked []int
	for id := range s.parked {
		parked = append(parked, id)
	}
	nsub := s.nsub
	s.mu.Unlock()
	sort.Ints(parked)
	for tries := 0; tries < 100; tries++ {
		switch k := r.Intn(10); {
		case k < 3 && len(parked) > 0:
			return core.Ev{"op": "Release", "id": parked[r.Intn(len(parked))]}
		case k < 6 && len(idle) == s.nthr && nsub < s.maxTasks:
			return core.Ev{"op": "Submit", "t": idle[r.Intn(len(idle))], "k": core.Pick(r, "plain", "plain", "spawn")}
		case k == 6 && len(idle) == s.nthr:
			return core.Ev{"op": "Shutdown", "t": idle[r.Intn(len(idle))]}
		case k == 7 && len(idle) == s.nthr:
			return core.Ev{"op": core.Pick(r, "WaitShutdown", "WaitIsZero"), "t": idle[r.Intn(len(idle))]}
		}
	}
	if len(parked) > 0 {
		return core.Ev{"op": "Release", "id": parked[0]}
	}
	if len(idle) == s.nthr {
		return core.Ev{"op": "Shutdown", "t": idle[0]}
	}
	return core.Ev{"op": "Shutdown", "t": idle[0]}
}
