package workerpool

import (
	"fmt"
	"math/rand"

	hive "github.com/iotaledger/hive.go/runtime/workerpool"

	"verifharness/core"
	"verifharness/sched"
)

func init() { core.Register("PoolGroup", func() core.SUT { return &groupSUT{nthr: 2} }) }

type groupSUT struct {
	root, sub *hive.Group
	pools     map[int]*hive.WorkerPool
	gate      *sched.Gate
	threads   map[int]*sched.Thread
	nthr      int
}

func (s *groupSUT) Reset(cfg core.Ev) {
	if s.root != nil { // let the abandoned tree finish
		s.gate.ReleaseAll()
		settle()
		h := sched.NewThread(99)
		root := s.root
		h.Go(func() any { root.Shutdown(); return nil })
		settle()
		h.Abandon()
		for _, t := range s.threads {
			t.Abandon()
		}
	}
	s.gate = sched.NewGate()
	s.root = hive.NewGroup("root")
	s.sub = s.root.CreateGroup("sub")
	s.pools = map[int]*hive.WorkerPool{
		1: s.root.CreatePool("p1", hive.WithWorkerCount(1)),
		2: s.sub.CreatePool("p2", hive.WithWorkerCount(1)),
		3: s.sub.CreatePool("p3", hive.WithWorkerCount(1)),
	}
	for i := 1; i <= 3; i++ {
		s.gate.Hold(fmt.Sprintf("pool-%d", i))
	}
	s.threads = map[int]*sched.Thread{}
	for i := 1; i <= s.nthr; i++ {
		s.threads[i] = sched.NewThread(i)
	}
	settle()
}

func (s *groupSUT) group(name string) *hive.Group {
	if name == "root" {
		return s.root
	}
	return s.sub
}

func (s *groupSUT) Apply(e core.Ev) (any, any) {
	var r any = ""
	switch op := core.Str(e, "op"); op {
	case "Release":
		if !s.gate.Release(fmt.Sprintf("pool-%d", core.Int(e, "p"))) {
			// the running task may not have reached the gate yet only if nothing was started: report as is
			panic("no task of that pool is parked")
		}
	case "Submit":
		pi := core.Int(e, "p")
		p := s.pools[pi]
		gate := s.gate
		before := p.PendingTasksCounter.Get()
		s.threads[core.Int(e, "t")].Go(func() any {
			p.Submit(func() { gate.Wait(fmt.Sprintf("pool-%d", pi)) })
			return nil
		})
		settle()
		if p.PendingTasksCounter.Get() > before {
			r = "accepted"
		} else {
			r = "refused"
		}
	case "WaitChildren":
		g := s.group(core.Str(e, "g"))
		s.threads[core.Int(e, "t")].Go(func() any { g.WaitChildren(); return nil })
	case "Shutdown":
		g := s.group(core.Str(e, "g"))
		s.threads[core.Int(e, "t")].Go(func() any { g.Shutdown(); return nil })
	default:
		panic("unknown op " + op)
	}
	settle()
	ret, blocked := []int{}, []int{}
	for id := 1; id <= s.nthr; id++ {
		th := s.threads[id]
		if fin, _, pan := th.Take(); fin {
			if pan != nil {
				panic(pan)
			}
			ret = append(ret, id)
		} else if th.Busy() {
			blocked = append(blocked, id)
		}
	}
	pend := []any{s.pools[1].PendingTasksCounter.Get(), s.pools[2].PendingTasksCounter.Get(), s.pools[3].PendingTasksCounter.Get()}
	return core.Ev{"r": r, "ret": core.SortedInts(ret)}, core.Ev{"pending": pend, "blocked": core.SortedInts(blocked),
		"rootPending": s.root.PendingChildrenCounter.Get(), "subPending": s.sub.PendingChildrenCounter.Get()}
}

func (s *groupSUT) RandomCfg(r *rand.Rand) core.Ev { return core.Ev{"kind": "Group"} }

func (s *groupSUT) RandomStimulus(r *rand.Rand) core.Ev {
	var idle []int
	for id := 1; id <= s.nthr; id++ {
		if !s.threads[id].Busy() {
			idle = append(idle, id)
		}
	}
	for tries := 0; tries < 200; tries++ {
		p := 1 + r.Intn(3)
		n := s.pools[p].PendingTasksCounter.Get()
		switch k := r.Intn(10); {
		case k < 4 && len(idle) > 0 && n < 2:
			return core.Ev{"op": "Submit", "t": idle[r.Intn(len(idle))], "p": p}
		case k < 8 && n > 0:
			return core.Ev{"op": "Release", "p": p}
		case k == 8 && len(idle) == s.nthr:
			return core.Ev{"op": "WaitChildren", "t": idle[r.Intn(len(idle))], "g": core.Pick(r, "root", "sub")}
		case k == 9 && len(idle) == s.nthr && r.Intn(4) == 0:
			return core.Ev{"op": "Shutdown", "t": idle[r.Intn(len(idle))], "g": core.Pick(r, "root", "sub")}
		}
	}
	for p := 1; p <= 3; p++ {
		if s.pools[p].PendingTasksCounter.Get() > 0 {
			return core.Ev{"op": "Release", "p": p}
		}
	}
	return core.Ev{"op": "Submit", "t": idle[0], "p": 1}
}
