package workerpool

import (
	"bufio"
	"encoding/json"
	"flag"
	"fmt"
	"math/rand"
	"os"
	"runtime"
	"sync"
	"sync/atomic"
	"time"

	"github.com/iotaledger/hive.go/runtime/syncutils"
	hive "github.com/iotaledger/hive.go/runtime/workerpool"

	"verifharness/core"
	"verifharness/sched"
)

// poolstress: free-running submitters / nested submits / Shutdown racing with them; one global event log.
func init() { core.RegisterCommand("poolstress", poolStress) }

type plog struct {
	mu  sync.Mutex
	evs []core.Ev
}

func (l *plog) add(e core.Ev) { l.mu.Lock(); l.evs = append(l.evs, e); l.mu.Unlock() }

func poolStress(args []string) int {
	fs := flag.NewFlagSet("poolstress", flag.ExitOnError)
	seed := fs.Int64("seed", 1, "")
	traces := fs.Int("traces", 30, "")
	out := fs.String("out", "", "")
	_ = fs.Parse(args)
	f, err := os.Create(*out)
	if err != nil {
		fmt.Fprintln(os.Stderr, err)
		return 2
	}
	defer f.Close()
	w := bufio.NewWriter(f)
	defer w.Flush()
	enc := json.NewEncoder(w)
	rng := rand.New(rand.NewSource(*seed))
	hangs := 0
	// forced schedule (TLC counterexample of DispatcherWakeImpl variant signal_without_lock): the dispatcher is held
	// between evaluating its wait condition and the condition wait while Shutdown runs; then it goes on
	for _, workers := range []int{1, 2} {
		gate := sched.NewGate()
		syncutils.VerifHook = func(p string) { gate.Wait("hook:" + p) }
		gate.Hold("hook:stack-poporwait-before-wait")
		lg := &plog{}
		p := hive.New("forced", hive.WithWorkerCount(workers))
		p.Start()
		sched.Quiesce(2 * time.Second) // the dispatcher is parked at the yield point (inside PopOrWait, queue empty)
		done := make(chan struct{})
		go func() {
			defer close(done)
			p.Shutdown()
			p.ShutdownComplete.Wait()
			lg.add(core.Ev{"op": "complete", "pending": p.PendingTasksCounter.Get()})
		}()
		sched.Quiesce(2 * time.Second)
		gate.ReleaseAll()
		finished := true
		select {
		case <-done:
		case <-time.After(3 * time.Second):
			finished = false
			hangs++
		}
		syncutils.VerifHook = nil
		_ = enc.Encode(core.Ev{"op": "reset", "cfg": core.Ev{"workers": workers, "cancel": false}})
		lg.mu.Lock()
		for _, e := range lg.evs {
			_ = enc.Encode(e)
		}
		lg.mu.Unlock()
		if !finished {
			_ = enc.Encode(core.Ev{"op": "complete", "pending": 0}) // so that the final event is the one that is rejected
		}
		_ = enc.Encode(core.Ev{"op": "final", "finished": finished})
	}
	// short-lived pools: Start, a few Submits, Shutdown and the wait for completion follow one another in ONE goroutine
	// without a pause (GOMAXPROCS 1 and 16): the pool's own goroutines may not have run at all when Shutdown arrives
	for tr := 0; tr < 6+*traces/3; tr++ {
		workers := 1 + rng.Intn(3)
		cancel := rng.Intn(3) == 0
		if tr%2 == 0 {
			runtime.GOMAXPROCS(1)
		} else {
			runtime.GOMAXPROCS(16)
		}
		lg := &plog{}
		p := hive.New("short", hive.WithWorkerCount(workers), hive.WithCancelPendingTasksOnShutdown(cancel))
		var incs atomic.Int64
		p.PendingTasksCounter.Subscribe(func(o, n int) {
			if n > o {
				incs.Add(1)
			}
		})
		p.Start()
		for k := 1; k <= 1+tr%3; k++ {
			k := k
			lg.add(core.Ev{"op": "begin", "k": k})
			before := incs.Load()
			p.Submit(func() { lg.add(core.Ev{"op": "run", "k": k}) })
			lg.add(core.Ev{"op": "end", "k": k, "acc": incs.Load() > before})
		}
		done := make(chan struct{})
		go func() {
			defer close(done)
			p.Shutdown()
			p.ShutdownComplete.Wait()
			lg.add(core.Ev{"op": "complete", "pending": p.PendingTasksCounter.Get()})
		}()
		finished := true
		select {
		case <-done:
			time.Sleep(20 * time.Millisecond) // a task that still runs now runs after completion was reported
		case <-time.After(10 * time.Second):
			finished = false
			hangs++
		}
		lg.mu.Lock()
		_ = enc.Encode(core.Ev{"op": "reset", "cfg": core.Ev{"workers": workers, "cancel": cancel}})
		for _, e := range lg.evs {
			_ = enc.Encode(e)
		}
		if !finished {
			_ = enc.Encode(core.Ev{"op": "complete", "pending": 0})
		}
		_ = enc.Encode(core.Ev{"op": "final", "finished": finished})
		lg.mu.Unlock()
	}
	// restart after a refused Submit that panics (WithPanicOnSubmitAfterShutdown): the pool is stopped, a Submit panics and is
	// recovered, the pool is started again, runs a task, is shut down: the second life must complete like any other
	for tr := 0; tr < 4; tr++ {
		workers := 1 + tr%2
		lg := &plog{}
		p := hive.New("again", hive.WithWorkerCount(workers), hive.WithPanicOnSubmitAfterShutdown(true))
		var incs atomic.Int64
		p.PendingTasksCounter.Subscribe(func(o, n int) {
			if n > o {
				incs.Add(1)
			}
		})
		p.Start()
		p.Shutdown()
		p.ShutdownComplete.Wait()
		done := make(chan struct{})
		go func() {
			defer close(done)
			lg.add(core.Ev{"op": "begin", "k": 1})
			before := incs.Load()
			func() {
				defer func() { _ = recover() }()
				p.Submit(func() { lg.add(core.Ev{"op": "run", "k": 1}) })
			}()
			lg.add(core.Ev{"op": "end", "k": 1, "acc": incs.Load() > before})
			p.Start()
			lg.add(core.Ev{"op": "begin", "k": 2})
			before = incs.Load()
			p.Submit(func() { lg.add(core.Ev{"op": "run", "k": 2}) })
			lg.add(core.Ev{"op": "end", "k": 2, "acc": incs.Load() > before})
			p.Shutdown()
			p.ShutdownComplete.Wait()
			lg.add(core.Ev{"op": "complete", "pending": p.PendingTasksCounter.Get()})
		}()
		finished := true
		select {
		case <-done:
		case <-time.After(5 * time.Second):
			finished = false
			hangs++
		}
		lg.mu.Lock()
		_ = enc.Encode(core.Ev{"op": "reset", "cfg": core.Ev{"workers": workers, "cancel": false}})
		for _, e := range lg.evs {
			_ = enc.Encode(e)
		}
		if !finished {
			_ = enc.Encode(core.Ev{"op": "complete", "pending": 0})
		}
		_ = enc.Encode(core.Ev{"op": "final", "finished": finished})
		lg.mu.Unlock()
	}
	// a watcher of the queue size (Queue.WaitSizeIsAbove) waits on the same stack as the dispatcher and started waiting first;
	// a task is submitted to the idle pool: it has to be run promptly, not only when the next Submit or the Shutdown comes
	for tr := 0; tr < 2; tr++ {
		lg := &plog{}
		p := hive.New("watched", hive.WithWorkerCount(1+tr), hive.WithCancelPendingTasksOnShutdown(tr == 1))
		var incs atomic.Int64
		p.PendingTasksCounter.Subscribe(func(o, n int) {
			if n > o {
				incs.Add(1)
			}
		})
		go p.Queue.WaitSizeIsAbove(100) // (never satisfied; released by nothing - the goroutine is abandoned with the pool)
		time.Sleep(30 * time.Millisecond)
		p.Start()
		time.Sleep(30 * time.Millisecond)
		done := make(chan struct{})
		go func() {
			defer close(done)
			ran := make(chan struct{})
			lg.add(core.Ev{"op": "begin", "k": 1})
			before := incs.Load()
			p.Submit(func() { lg.add(core.Ev{"op": "run", "k": 1}); close(ran) })
			lg.add(core.Ev{"op": "end", "k": 1, "acc": incs.Load() > before})
			select {
			case <-ran:
			case <-time.After(2 * time.Second):
			}
			lg.add(core.Ev{"op": "settled"})
			p.Shutdown()
			p.ShutdownComplete.Wait()
			lg.add(core.Ev{"op": "complete", "pending": p.PendingTasksCounter.Get()})
		}()
		finished := true
		select {
		case <-done:
		case <-time.After(8 * time.Second):
			finished = false
			hangs++
		}
		lg.mu.Lock()
		_ = enc.Encode(core.Ev{"op": "reset", "cfg": core.Ev{"workers": 1 + tr, "cancel": tr == 1}})
		for _, e := range lg.evs {
			_ = enc.Encode(e)
		}
		if !finished {
			_ = enc.Encode(core.Ev{"op": "complete", "pending": 0})
		}
		_ = enc.Encode(core.Ev{"op": "final", "finished": finished})
		lg.mu.Unlock()
	}
	// restart while the previous run is still draining: the only worker is busy and more tasks are queued when Shutdown and
	// then Start are called (Start has to wait for the previous run to complete); the busy task is released; Start returns;
	// one more task; Shutdown and wait.  Every accepted task runs, everything returns.
	for tr := 0; tr < 4; tr++ {
		queued := 1 + tr
		lg := &plog{}
		p := hive.New("redrain", hive.WithWorkerCount(1), hive.WithCancelPendingTasksOnShutdown(false))
		var incs atomic.Int64
		p.PendingTasksCounter.Subscribe(func(o, n int) {
			if n > o {
				incs.Add(1)
			}
		})
		submit := func(k int, body func()) {
			lg.add(core.Ev{"op": "begin", "k": k})
			before := incs.Load()
			p.Submit(func() { lg.add(core.Ev{"op": "run", "k": k}); body() })
			lg.add(core.Ev{"op": "end", "k": k, "acc": incs.Load() > before})
		}
		p.Start()
		release, entered := make(chan struct{}), make(chan struct{})
		done := make(chan struct{})
		go func() {
			defer close(done)
			submit(1, func() { close(entered); <-release })
			<-entered
			for k := 2; k <= 1+queued; k++ {
				submit(k, func() {})
			}
			p.Shutdown()
			started := make(chan struct{})
			go func() { defer close(started); p.Start() }()
			select {
			case <-started:
			case <-time.After(30 * time.Millisecond):
			}
			close(release)
			<-started
			submit(2+queued, func() {})
			p.Shutdown()
			p.ShutdownComplete.Wait()
			lg.add(core.Ev{"op": "complete", "pending": p.PendingTasksCounter.Get()})
		}()
		finished := true
		select {
		case <-done:
		case <-time.After(5 * time.Second):
			finished = false
			hangs++
		}
		lg.mu.Lock()
		_ = enc.Encode(core.Ev{"op": "reset", "cfg": core.Ev{"workers": 1, "cancel": false}})
		for _, e := range lg.evs {
			_ = enc.Encode(e)
		}
		if !finished {
			_ = enc.Encode(core.Ev{"op": "complete", "pending": 0})
		}
		_ = enc.Encode(core.Ev{"op": "final", "finished": finished})
		lg.mu.Unlock()
	}
	for tr := 0; tr < *traces; tr++ {
		workers := 1 + rng.Intn(4)
		cancel := rng.Intn(2) == 0
		nsub := 2 + rng.Intn(3)
		per := 5 + rng.Intn(25)
		if tr%7 == 6 {
			runtime.GOMAXPROCS(1)
		} else {
			runtime.GOMAXPROCS(16)
		}
		lg := &plog{}
		// every other pool is made by a Group with the cancel flag given explicitly (the group's own default is cancel = true:
		// the caller's option has to win); CreatePool starts the pool
		var p *hive.WorkerPool
		var incs atomic.Int64
		if tr%2 == 1 {
			p = hive.NewGroup("g").CreatePool("stress", hive.WithWorkerCount(workers), hive.WithCancelPendingTasksOnShutdown(cancel))
		} else {
			p = hive.New("stress", hive.WithWorkerCount(workers), hive.WithCancelPendingTasksOnShutdown(cancel))
		}
		p.PendingTasksCounter.Subscribe(func(o, n int) {
			if n > o {
				incs.Add(1)
			}
		})
		if tr%2 == 0 {
			p.Start()
		}
		var ids atomic.Int64
		var submit func(r *rand.Rand, depth int)
		var smu sync.Mutex // serialises "count increases during my Submit" bookkeeping per call
		submit = func(r *rand.Rand, depth int) {
			k := int(ids.Add(1))
			nested := depth < 2 && r.Intn(4) == 0
			r2 := rand.New(rand.NewSource(r.Int63()))
			body := func() {
				lg.add(core.Ev{"op": "run", "k": k})
				if nested {
					submit(r2, depth+1)
				}
				for i := r2.Intn(3); i > 0; i-- {
					runtime.Gosched()
				}
			}
			// acceptance is observed through the pending counter; concurrent Submits are serialised here only
			// around the counting (the pool calls themselves overlap with task bodies, Shutdown and waiters)
			smu.Lock()
			lg.add(core.Ev{"op": "begin", "k": k})
			before := incs.Load()
			p.Submit(body)
			acc := incs.Load() > before
			lg.add(core.Ev{"op": "end", "k": k, "acc": acc})
			smu.Unlock()
		}
		var wg sync.WaitGroup
		for s := 0; s < nsub; s++ {
			wg.Add(1)
			r := rand.New(rand.NewSource(rng.Int63()))
			go func() {
				defer wg.Done()
				for i := 0; i < per; i++ {
					submit(r, 0)
					if r.Intn(3) == 0 {
						runtime.Gosched()
					}
				}
			}()
		}
		delay := time.Duration(rng.Intn(300)) * time.Microsecond
		wg.Add(1)
		go func() {
			defer wg.Done()
			time.Sleep(delay)
			p.Shutdown()
			p.ShutdownComplete.Wait()
			lg.add(core.Ev{"op": "complete", "pending": p.PendingTasksCounter.Get()})
		}()
		done := make(chan struct{})
		go func() { wg.Wait(); close(done) }()
		finished := true
		select {
		case <-done:
		case <-time.After(20 * time.Second):
			finished = false
			hangs++
		}
		lg.mu.Lock()
		_ = enc.Encode(core.Ev{"op": "reset", "cfg": core.Ev{"workers": workers, "cancel": cancel}})
		for _, e := range lg.evs {
			_ = enc.Encode(e)
		}
		_ = enc.Encode(core.Ev{"op": "final", "finished": finished})
		lg.mu.Unlock()
	}
	runtime.GOMAXPROCS(16)
	fmt.Printf("{\"traces\": %d, \"hangs\": %d}\n", *traces, hangs)
	return 0
}
