package workerpool

import (
	"bufio"
	"encoding/json"
	"flag"
	"fmt"
	"math/rand"
	"os"
	"sync"
	"sync/atomic"
	"time"

	"github.com/iotaledger/hive.go/runtime/syncutils"
	hive "github.com/iotaledger/hive.go/runtime/workerpool"

	"verifharness/core"
	"verifharness/sched"
)

// grouprun: controlled executions of a group tree for GroupRun.tla (C16, Group.WaitChildren). Stopping points: every
// acquisition of a pending-task counter's lock (hook counter-lock in runtime/syncutils) and the bodies of the tasks.
// Between two quiescent points the scheduler releases ONE parked goroutine (a counter update on its way up the tree, or a
// task body), so a submitter can be stopped while its increment has reached the pool but not yet the groups above it.
func init() { core.RegisterCommand("grouprun", groupRun) }

func groupRun(args []string) int {
	fs := flag.NewFlagSet("grouprun", flag.ExitOnError)
	seed := fs.Int64("seed", 1, "")
	traces := fs.Int("traces", 60, "")
	out := fs.String("out", "", "")
	_ = fs.Parse(args)
	f, err := os.Create(*out)
	if err != nil {
		fmt.Fprintln(os.Stderr, err)
		return 2
	}
	defer f.Close()
	w := bufio.NewWriter(f)
	defer w.Flush()
	enc := json.NewEncoder(w)
	rng := rand.New(rand.NewSource(*seed))
	hangs := 0
	for tr := 0; tr < *traces; tr++ {
		var mu sync.Mutex
		evs := []core.Ev{}
		log := func(e core.Ev) { mu.Lock(); evs = append(evs, e); mu.Unlock() }
		gate := sched.NewGate()
		// a tree of depth three: root -> mid -> leaf; every pool is below mid, so a wait on the root and a wait on the
		// intermediate group are both waits for all tasks (the waiter alternates between the two)
		root := hive.NewGroup("root")
		mid := root.CreateGroup("mid")
		sub := mid.CreateGroup("leaf")
		waited := root
		if tr%2 == 1 {
			waited = mid
		}
		npools := 1 + rng.Intn(3)
		pools := []*hive.WorkerPool{sub.CreatePool("p1", hive.WithWorkerCount(2))}
		if npools >= 2 {
			pools = append(pools, sub.CreatePool("p2", hive.WithWorkerCount(1)))
		}
		if npools >= 3 {
			pools = append(pools, mid.CreatePool("p3", hive.WithWorkerCount(1)))
		}
		sched.QuiesceOpt(300*time.Millisecond, 2, false) // the pools' own goroutines are parked
		gate.HoldAll()
		syncutils.VerifHook = func(p string) {
			if p == "counter-lock" {
				gate.Wait("lock")
			}
		}
		var wg sync.WaitGroup
		var nextK atomic.Int64
		submitter := func(r *rand.Rand, n int) {
			defer wg.Done()
			for i := 0; i < n; i++ {
				k := int(nextK.Add(1))
				p := pools[r.Intn(len(pools))]
				log(core.Ev{"op": "sb", "k": k})
				p.Submit(func() {
					log(core.Ev{"op": "run", "k": k})
					gate.Wait("task")
					log(core.Ev{"op": "done", "k": k})
				})
				log(core.Ev{"op": "se", "k": k})
			}
		}
		nsub := 2
		for i := 0; i < nsub; i++ {
			wg.Add(1)
			go submitter(rand.New(rand.NewSource(rng.Int63())), 1+rng.Intn(2))
		}
		waiterStarted := false
		startWaiter := func() {
			waiterStarted = true
			wg.Add(1)
			go func() {
				defer wg.Done()
				log(core.Ev{"op": "wb"})
				waited.WaitChildren()
				log(core.Ev{"op": "we"})
			}()
		}
		all := make(chan struct{})
		finished := false
		for step := 0; step < 600 && !finished; step++ {
			sched.QuiesceOpt(100*time.Millisecond, 2, false)
			mu.Lock()
			nse := 0
			for _, e := range evs {
				if e["op"] == "se" {
					nse++
				}
			}
			mu.Unlock()
			if !waiterStarted && nse >= 1 && rng.Intn(3) == 0 {
				startWaiter()
				go func() { wg.Wait(); close(all) }()
				continue
			}
			nl, nt := gate.Parked("lock"), gate.Parked("task")
			if nl+nt == 0 {
				if !waiterStarted {
					startWaiter()
					go func() { wg.Wait(); close(all) }()
					continue
				}
				select {
				case <-all:
					finished = true
				case <-time.After(20 * time.Millisecond):
				}
				continue
			}
			// mostly counter updates go on; a task body is released less often (so that tasks stay pending for a while)
			if nl > 0 && (nt == 0 || rng.Intn(4) > 0) {
				gate.ReleaseNth("lock", rng.Intn(nl))
			} else {
				gate.ReleaseNth("task", rng.Intn(nt))
			}
		}
		gate.ReleaseAll()
		syncutils.VerifHook = nil
		if !finished {
			if !waiterStarted {
				startWaiter()
				go func() { wg.Wait(); close(all) }()
			}
			select {
			case <-all:
				finished = true
			case <-time.After(5 * time.Second):
				hangs++
			}
		}
		mu.Lock()
		_ = enc.Encode(core.Ev{"op": "reset", "cfg": core.Ev{"pools": npools}})
		for _, e := range evs {
			_ = enc.Encode(e)
		}
		_ = enc.Encode(core.Ev{"op": "final", "hung": !finished})
		mu.Unlock()
		go root.Shutdown()
	}
	fmt.Printf("{\"traces\": %d, \"hangs\": %d}\n", *traces, hangs)
	return 0
}
