package typed

import (
	"fmt"
	"math/rand"

	"github.com/iotaledger/hive.go/kvstore"
	"github.com/iotaledger/hive.go/kvstore/mapdb"

	"verifharness/core"
)

var tvKey = []byte("key")

// typedValueSUT: the real TypedValue[int] over faultyStore(mapdb); raw is the mapdb itself.
type typedValueSUT struct {
	raw kvstore.KVStore
	p   *plan
	tv  *kvstore.TypedValue[int]
}

func init() { core.Register("TypedValue", func() core.SUT { return &typedValueSUT{} }) }

func (s *typedValueSUT) Reset(cfg core.Ev) {
	s.raw = mapdb.NewMapDB()
	s.p = &plan{}
	if init := core.Ints(cfg, "init"); len(init) == 1 {
		if err := s.raw.Set(tvKey, []byte{byte(init[0])}); err != nil {
			panic(err)
		}
	}
	s.tv = kvstore.NewTypedValue[int](&faultyStore{inner: s.raw, p: s.p}, tvKey, valEnc(s.p), valDec(s.p))
}

func getRes(v int, err error) core.Ev {
	return core.Ev{"err": class(err), "val": core.Opt(err == nil, v)}
}

func hasRes(h bool, err error) core.Ev {
	return core.Ev{"err": class(err), "has": core.Opt(err == nil, h)}
}

// st: raw bytes of the key (read from mapdb directly), the answers of a FRESH fault-free
// TypedValue over the same store, and the optional fault-free probe on the object under test.
func (s *typedValueSUT) st(probe string) any {
	pr := []any{}
	switch probe {
	case "get":
		pr = append(pr, getRes(s.tv.Get()))
	case "has":
		pr = append(pr, hasRes(s.tv.Has()))
	}
	rawSt := []any{}
	if b, err := s.raw.Get(tvKey); err == nil {
		rawSt = append(rawSt, bytesSeq(b))
	} else if class(err) != "ErrKeyNotFound" {
		panic(err)
	}
	none := &plan{}
	fresh := kvstore.NewTypedValue[int](s.raw, tvKey, valEnc(none), valDec(none))
	fh, fhErr := fresh.Has()
	if fhErr != nil {
		panic(fhErr)
	}
	fv, fErr := fresh.Get()

	return core.Ev{
		"raw":   rawSt,
		"fresh": core.Ev{"has": fh, "err": class(fErr), "val": core.Opt(fErr == nil, fv)},
		"probe": pr,
	}
}

func (s *typedValueSUT) Apply(e core.Ev) (any, any) {
	s.p.arm(core.Str(e, "fail"), 1)
	res := s.call(e)
	s.p.disarm()

	return res, s.st(core.Str(e, "probe"))
}

func (s *typedValueSUT) call(e core.Ev) any {
	switch core.Str(e, "op") {
	case "Get":
		return getRes(s.tv.Get())
	case "Has":
		return hasRes(s.tv.Has())
	case "Set":
		return core.Ev{"err": class(s.tv.Set(core.Int(e, "v")))}
	case "Delete":
		return core.Ev{"err": class(s.tv.Delete())}
	case "Compute":
		fk, fv := core.Str(e, "fk"), core.Int(e, "fv")
		seen := []any{}
		v, err := s.tv.Compute(func(cur int, exists bool) (int, error) {
			seen = append(seen, core.Ev{"ex": exists, "cur": cur})
			switch fk {
			case "set":
				return fv, nil
			case "inc":
				if cur+1 > fv { // fv = modulus of the increment
					return 1, nil
				}
				return cur + 1, nil
			case "same":
				return cur, kvstore.ErrTypedValueNotChanged
			case "wsame":
				return cur, fmt.Errorf("nothing to do: %w", kvstore.ErrTypedValueNotChanged)
			case "err":
				return cur, errFn
			}
			panic("unknown fk " + fk)
		})

		return core.Ev{"err": class(err), "val": core.Opt(err == nil, v), "seen": seen}
	}
	panic("unknown op")
}

// nVals is the size of the value universe the recorder stays in (TypedValue.cfg is also the
// trace cfg: Vals = 1..3).  The walker takes its stimuli from the LTS, whatever its constants.
const nVals = 3

func (s *typedValueSUT) RandomCfg(r *rand.Rand) core.Ev {
	if r.Intn(2) == 0 {
		return core.Ev{"init": []any{}}
	}
	return core.Ev{"init": []any{1 + r.Intn(nVals)}}
}

func (s *typedValueSUT) RandomStimulus(r *rand.Rand) core.Ev {
	probe := core.Pick(r, "none", "none", "get", "has")
	// half of the operations run fault free, the others with a fault of the operation's plan
	fail := func(kinds ...string) string {
		if r.Intn(2) == 0 {
			return "none"
		}
		return core.Pick(r, kinds...)
	}
	switch r.Intn(8) {
	case 0:
		return core.Ev{"op": "Get", "fail": fail("storeGet", "dec"), "probe": probe}
	case 1:
		return core.Ev{"op": "Has", "fail": fail("storeHas"), "probe": probe}
	case 2, 3:
		return core.Ev{"op": "Set", "v": 1 + r.Intn(nVals), "fail": fail("enc", "storeSet"), "probe": probe}
	case 4:
		return core.Ev{"op": "Delete", "fail": fail("storeDel"), "probe": probe}
	}
	fk := core.Pick(r, "set", "set", "inc", "inc", "same", "wsame", "err")
	fv := 0
	switch fk {
	case "set":
		fv = 1 + r.Intn(nVals)
	case "inc":
		fv = nVals
	}
	return core.Ev{"op": "Compute", "fk": fk, "fv": fv, "fail": fail("storeGet", "dec", "enc", "storeSet"), "probe": probe}
}
