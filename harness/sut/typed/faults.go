// Package typed adapts kvstore.TypedValue / kvstore.TypedStore (property C06) to their TLA+
// modules.  The real objects are built over a fault-injecting KVStore wrapper around mapdb and
// over codecs that fail on command; the projected state is read from the underlying mapdb
// directly (behind the back of the object under test).
package typed

import (
	"errors"

	"github.com/iotaledger/hive.go/kvstore"
)

// Sentinel causes of injected failures: the adapter classifies a returned error by errors.Is.
var (
	errStore   = errors.New("injected store failure")
	errEnc     = errors.New("injected encode failure")
	errDec     = errors.New("injected decode failure")
	errKeyEnc  = errors.New("injected key encode failure")
	errKeyDec  = errors.New("injected key decode failure")
	errFn      = errors.New("compute function failed")
	errCorrupt = errors.New("corrupt bytes") // a real (not injected) decode failure
)

// class maps an error to the error classes used by the specs.
func class(err error) string {
	switch {
	case err == nil:
		return "ok"
	case errors.Is(err, kvstore.ErrKeyNotFound):
		return "ErrKeyNotFound"
	case errors.Is(err, errStore):
		return "storeErr"
	case errors.Is(err, errEnc):
		return "encErr"
	case errors.Is(err, errDec):
		return "decErr"
	case errors.Is(err, errKeyEnc):
		return "keyEncErr"
	case errors.Is(err, errKeyDec):
		return "keyDecErr"
	case errors.Is(err, errFn):
		return "fnErr"
	case errors.Is(err, errCorrupt):
		return "corrupt"
	case errors.Is(err, kvstore.ErrTypedValueNotChanged):
		return "ErrTypedValueNotChanged"
	}
	return "other: " + err.Error()
}

// plan is the outcome plan of the operation in flight: the n-th call of kind `kind` fails.
// Kinds: storeGet storeSet storeHas storeDel storeIter storeIterKeys storeClear storeDelPrefix
// (store calls) and enc dec keyEnc keyDec (codec calls).  It is armed per operation.
type plan struct {
	kind  string
	n     int
	seen  map[string]int
	fired bool
}

func (p *plan) arm(kind string, n int) {
	if n <= 0 {
		n = 1
	}
	p.kind, p.n, p.seen, p.fired = kind, n, map[string]int{}, false
}

func (p *plan) disarm() { p.kind, p.n, p.seen = "", 0, nil }

// hit counts one call of kind k and reports whether it is the one that must fail.
func (p *plan) hit(k string) bool {
	if p.seen == nil {
		return false
	}
	p.seen[k]++
	if k == p.kind && p.seen[k] == p.n {
		p.fired = true
		return true
	}
	return false
}

// faultyStore forwards to inner unless the plan says the call fails (then inner is not touched).
type faultyStore struct {
	inner kvstore.KVStore
	p     *plan
}

var _ kvstore.KVStore = (*faultyStore)(nil)

func (f *faultyStore) WithRealm(realm kvstore.Realm) (kvstore.KVStore, error) {
	in, err := f.inner.WithRealm(realm)
	if err != nil {
		return nil, err
	}
	return &faultyStore{inner: in, p: f.p}, nil
}

func (f *faultyStore) WithExtendedRealm(realm kvstore.Realm) (kvstore.KVStore, error) {
	in, err := f.inner.WithExtendedRealm(realm)
	if err != nil {
		return nil, err
	}
	return &faultyStore{inner: in, p: f.p}, nil
}

func (f *faultyStore) Realm() kvstore.Realm { return f.inner.Realm() }

func (f *faultyStore) Iterate(prefix kvstore.KeyPrefix, c kvstore.IteratorKeyValueConsumerFunc, d ...kvstore.IterDirection) error {
	if f.p.hit("storeIter") {
		return errStore
	}
	return f.inner.Iterate(prefix, c, d...)
}

func (f *faultyStore) IterateKeys(prefix kvstore.KeyPrefix, c kvstore.IteratorKeyConsumerFunc, d ...kvstore.IterDirection) error {
	if f.p.hit("storeIterKeys") {
		return errStore
	}
	return f.inner.IterateKeys(prefix, c, d...)
}

func (f *faultyStore) Clear() error {
	if f.p.hit("storeClear") {
		return errStore
	}
	return f.inner.Clear()
}

func (f *faultyStore) Get(key kvstore.Key) (kvstore.Value, error) {
	if f.p.hit("storeGet") {
		return nil, errStore
	}
	return f.inner.Get(key)
}

func (f *faultyStore) Set(key kvstore.Key, value kvstore.Value) error {
	if f.p.hit("storeSet") {
		return errStore
	}
	return f.inner.Set(key, value)
}

func (f *faultyStore) Has(key kvstore.Key) (bool, error) {
	if f.p.hit("storeHas") {
		return false, errStore
	}
	return f.inner.Has(key)
}

func (f *faultyStore) Delete(key kvstore.Key) error {
	if f.p.hit("storeDel") {
		return errStore
	}
	return f.inner.Delete(key)
}

func (f *faultyStore) DeletePrefix(prefix kvstore.KeyPrefix) error {
	if f.p.hit("storeDelPrefix") {
		return errStore
	}
	return f.inner.DeletePrefix(prefix)
}

func (f *faultyStore) Flush() error { return f.inner.Flush() }
func (f *faultyStore) Close() error { return f.inner.Close() }
func (f *faultyStore) Batched() (kvstore.BatchedMutations, error) {
	return f.inner.Batched()
}

// Value codec: one byte per value.  A failing encoder returns (nil, err) like real serializers do.
func valEnc(p *plan) kvstore.ObjectToBytes[int] {
	return func(v int) ([]byte, error) {
		if p.hit("enc") {
			return nil, errEnc
		}
		return []byte{byte(v)}, nil
	}
}

func valDec(p *plan) kvstore.BytesToObject[int] {
	return func(b []byte) (int, int, error) {
		if p.hit("dec") {
			return 0, 0, errDec
		}
		if len(b) != 1 {
			return 0, 0, errCorrupt
		}
		return int(b[0]), 1, nil
	}
}

func bytesSeq(b []byte) []any {
	out := make([]any, len(b))
	for i, x := range b {
		out[i] = int(x)
	}
	return out
}
