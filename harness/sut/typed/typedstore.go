package typed

import (
	"bytes"
	"math/rand"

	"github.com/iotaledger/hive.go/kvstore"
	"github.com/iotaledger/hive.go/kvstore/mapdb"

	"verifharness/core"
)

// Typed keys 1..3 and their encodings (TypedStore.tla: KB): two share a prefix, one is 0xff.
var keyBytes = map[int][]byte{1: {1, 1}, 2: {1, 2}, 3: {255}}

var (
	tsRealm    = []byte{9}
	foreignLo  = []byte{8, 1} // entries of the shared store outside the realm (cfg.realm = 1)
	foreignHi  = []byte{10, 1}
	foreignVal = []byte{42}
)

// typedStoreSUT: the real TypedStore[int,int] over faultyStore(mapdb [realm]).
type typedStoreSUT struct {
	base kvstore.KVStore // the whole mapdb
	raw  kvstore.KVStore // what the typed view sits on (base, or a realm of it), fault free
	p    *plan
	ts   *kvstore.TypedStore[int, int]
}

func init() { core.Register("TypedStore", func() core.SUT { return &typedStoreSUT{} }) }

func (s *typedStoreSUT) Reset(cfg core.Ev) {
	s.base = mapdb.NewMapDB()
	s.raw = s.base
	s.p = &plan{}
	if core.Int(cfg, "realm") == 1 {
		for _, k := range [][]byte{foreignLo, foreignHi} {
			if err := s.base.Set(k, foreignVal); err != nil {
				panic(err)
			}
		}
		r, err := s.base.WithRealm(tsRealm)
		if err != nil {
			panic(err)
		}
		s.raw = r
	}
	p := s.p
	keyEnc := func(k int) ([]byte, error) {
		if p.hit("keyEnc") {
			return nil, errKeyEnc
		}
		b, ok := keyBytes[k]
		if !ok {
			panic("key outside the universe")
		}
		return append([]byte{}, b...), nil
	}
	keyDec := func(b []byte) (int, int, error) {
		if p.hit("keyDec") {
			return 0, 0, errKeyDec
		}
		for k, kb := range keyBytes {
			if bytes.Equal(kb, b) {
				return k, len(b), nil
			}
		}
		return 0, 0, errCorrupt
	}
	s.ts = kvstore.NewTypedStore[int, int](&faultyStore{inner: s.raw, p: p}, keyEnc, keyDec, valEnc(p), valDec(p))
}

// st: the complete raw content of the store the view sits on (read directly), and whether the
// entries outside the realm are untouched.
func (s *typedStoreSUT) st() any {
	raw := []any{}
	if err := s.raw.Iterate(kvstore.EmptyPrefix, func(k kvstore.Key, v kvstore.Value) bool {
		raw = append(raw, core.Ev{"k": bytesSeq(k), "v": bytesSeq(v)})
		return true
	}); err != nil {
		panic(err)
	}
	foreign := true
	if s.raw != s.base {
		for _, k := range [][]byte{foreignLo, foreignHi} {
			v, err := s.base.Get(k)
			foreign = foreign && err == nil && bytes.Equal(v, foreignVal)
		}
		n := 0
		_ = s.base.IterateKeys(kvstore.EmptyPrefix, func(kvstore.Key) bool { n++; return true })
		foreign = foreign && n == len(raw)+2
	}
	return core.Ev{"raw": raw, "foreign": foreign}
}

func dirArgs(d string) []kvstore.IterDirection {
	switch d {
	case "fwd":
		return []kvstore.IterDirection{kvstore.IterDirectionForward}
	case "bwd":
		return []kvstore.IterDirection{kvstore.IterDirectionBackward}
	}
	return nil
}

func prefixOf(e core.Ev) []byte {
	p := []byte{}
	for _, x := range core.Ints(e, "pfx") {
		p = append(p, byte(x))
	}
	return p
}

func (s *typedStoreSUT) Apply(e core.Ev) (any, any) {
	n := 1
	if _, ok := e["n"]; ok {
		n = core.Int(e, "n")
	}
	s.p.arm(core.Str(e, "fail"), n)
	res := s.call(e)
	s.p.disarm()

	return res, s.st()
}

func (s *typedStoreSUT) call(e core.Ev) any {
	switch core.Str(e, "op") {
	case "Get":
		return getRes(s.ts.Get(core.Int(e, "k")))
	case "Has":
		return hasRes(s.ts.Has(core.Int(e, "k")))
	case "Set":
		return core.Ev{"err": class(s.ts.Set(core.Int(e, "k"), core.Int(e, "v")))}
	case "Delete":
		return core.Ev{"err": class(s.ts.Delete(core.Int(e, "k")))}
	case "Iterate":
		stop, calls := core.Int(e, "stop"), 0
		seen := []any{}
		err := s.ts.Iterate(prefixOf(e), func(k int, v int) bool {
			calls++
			seen = append(seen, core.Ev{"k": k, "v": v})
			return calls != stop
		}, dirArgs(core.Str(e, "dir"))...)
		return core.Ev{"err": class(err), "seen": seen}
	case "IterateKeys":
		stop, calls := core.Int(e, "stop"), 0
		seen := []any{}
		err := s.ts.IterateKeys(prefixOf(e), func(k int) bool {
			calls++
			seen = append(seen, k)
			return calls != stop
		}, dirArgs(core.Str(e, "dir"))...)
		return core.Ev{"err": class(err), "seen": seen}
	case "DeletePrefix":
		return core.Ev{"err": class(s.ts.DeletePrefix(prefixOf(e)))}
	case "Clear":
		return core.Ev{"err": class(s.ts.Clear())}
	}
	panic("unknown op")
}

func (s *typedStoreSUT) RandomCfg(r *rand.Rand) core.Ev { return core.Ev{"realm": r.Intn(2)} }

var tsPrefixes = [][]any{{}, {1}, {1, 2}, {255}}

func (s *typedStoreSUT) RandomStimulus(r *rand.Rand) core.Ev {
	fail := func(kinds ...string) string {
		if r.Intn(2) == 0 {
			return "none"
		}
		return core.Pick(r, kinds...)
	}
	k := 1 + r.Intn(3)
	switch r.Intn(12) {
	case 0:
		return core.Ev{"op": "Get", "k": k, "fail": fail("keyEnc", "storeGet", "dec")}
	case 1:
		return core.Ev{"op": "Has", "k": k, "fail": fail("keyEnc", "storeHas")}
	case 2, 3, 4, 5:
		return core.Ev{"op": "Set", "k": k, "v": 1 + r.Intn(3), "fail": fail("keyEnc", "enc", "storeSet")}
	case 6:
		return core.Ev{"op": "Delete", "k": k, "fail": fail("keyEnc", "storeDel")}
	case 7, 8:
		f := fail("storeIter", "keyDec", "dec")
		n := 1
		if f == "keyDec" || f == "dec" {
			n = 1 + r.Intn(3)
		}
		return core.Ev{"op": "Iterate", "pfx": core.Pick(r, tsPrefixes...), "dir": core.Pick(r, "default", "fwd", "bwd"),
			"stop": r.Intn(3), "fail": f, "n": n}
	case 9:
		f := fail("storeIterKeys", "keyDec")
		n := 1
		if f == "keyDec" {
			n = 1 + r.Intn(3)
		}
		return core.Ev{"op": "IterateKeys", "pfx": core.Pick(r, tsPrefixes...), "dir": core.Pick(r, "default", "fwd", "bwd"),
			"stop": r.Intn(3), "fail": f, "n": n}
	case 10:
		if r.Intn(3) == 0 {
			return core.Ev{"op": "Clear", "fail": fail("storeClear")}
		}
	}
	return core.Ev{"op": "DeletePrefix", "pfx": core.Pick(r, tsPrefixes...), "fail": fail("storeDelPrefix")}
}
