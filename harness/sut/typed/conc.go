package typed

import (
	"bufio"
	"encoding/binary"
	"encoding/json"
	"errors"
	"flag"
	"fmt"
	"math/rand"
	"os"
	"runtime"
	"sync"
	"time"

	"github.com/iotaledger/hive.go/kvstore"
	"github.com/iotaledger/hive.go/kvstore/mapdb"

	"verifharness/core"
	"verifharness/sched"
)

// tvconc: concurrent callers on one kvstore.TypedValue[int] (C06, interleaving clause): linearizability histories and
// forced schedules in which the compute function is a gate (the write lock is held while other calls arrive).
func init() { core.RegisterCommand("tvconc", tvConc) }

type tlog struct {
	mu  sync.Mutex
	evs []core.Ev
}

func (l *tlog) add(e core.Ev) { l.mu.Lock(); l.evs = append(l.evs, e); l.mu.Unlock() }

func newTV(db kvstore.KVStore) *kvstore.TypedValue[int] {
	return kvstore.NewTypedValue[int](db, []byte{7},
		func(v int) ([]byte, error) {
			b := make([]byte, 8)
			binary.BigEndian.PutUint64(b, uint64(v))
			return b, nil
		},
		func(b []byte) (int, int, error) {
			if len(b) != 8 {
				return 0, 0, errors.New("bad length")
			}
			return int(binary.BigEndian.Uint64(b)), 8, nil
		})
}

func tvCall(lg *tlog, tv *kvstore.TypedValue[int], t int, op string, a int, gate *sched.Gate) {
	lg.add(core.Ev{"ev": "inv", "t": t, "op": op, "a": a})
	var res int
	switch op {
	case "Get":
		v, err := tv.Get()
		if err != nil {
			if !errors.Is(err, kvstore.ErrKeyNotFound) {
				panic(err)
			}
			res = -1
		} else {
			res = v
		}
	case "Has":
		h, err := tv.Has()
		if err != nil {
			panic(err)
		}
		if h {
			res = 1
		}
	case "Set":
		if err := tv.Set(a); err != nil {
			panic(err)
		}
	case "Delete":
		if err := tv.Delete(); err != nil {
			panic(err)
		}
	case "Inc":
		v, err := tv.Compute(func(cur int, exists bool) (int, error) {
			if gate != nil {
				gate.Wait("compute")
			}
			if !exists {
				return 1, nil
			}
			return cur + 1, nil
		})
		if err != nil {
			panic(err)
		}
		res = v
	}
	lg.add(core.Ev{"ev": "ret", "t": t, "res": res})
}

func tvEmit(enc *json.Encoder, lg *tlog, db kvstore.KVStore, hung []int) {
	lg.mu.Lock()
	defer lg.mu.Unlock()
	_ = enc.Encode(core.Ev{"ev": "reset"})
	for _, e := range lg.evs {
		_ = enc.Encode(e)
	}
	val, raw := -1, -1
	if len(hung) == 0 {
		// a fresh TypedValue over the same store (no cache) and the raw bytes
		if v, err := newTV(db).Get(); err == nil {
			val = v
		}
		if b, err := db.Get([]byte{7}); err == nil && len(b) == 8 {
			raw = int(binary.BigEndian.Uint64(b))
		}
	}
	_ = enc.Encode(core.Ev{"ev": "final", "hung": core.Seq(hung), "value": val, "raw": raw})
}

func tvWait(chs []chan struct{}, d time.Duration) []int {
	hung := []int{}
	deadline := time.After(d)
	for i, ch := range chs {
		select {
		case <-ch:
		case <-deadline:
			hung = append(hung, i+1)
			deadline = time.After(time.Millisecond)
		}
	}
	return hung
}

func tvConc(args []string) int {
	fs := flag.NewFlagSet("tvconc", flag.ExitOnError)
	seed := fs.Int64("seed", 1, "")
	hist := fs.Int("histories", 80, "")
	out := fs.String("out", "", "")
	ctl := fs.Int("controlled", 150, "controlled schedules on a cold TypedValue (stopping points: the store's map lock)")
	_ = fs.Parse(args)
	f, err := os.Create(*out)
	if err != nil {
		fmt.Fprintln(os.Stderr, err)
		return 2
	}
	defer f.Close()
	w := bufio.NewWriter(f)
	defer w.Flush()
	enc := json.NewEncoder(w)
	rng := rand.New(rand.NewSource(*seed))
	hangs := 0

	// forced schedules: T1 is held inside its compute function (write lock held); others arrive; release
	arrivals := [][]string{{"Set", "Delete"}, {"Inc", "Get"}, {"Delete", "Inc", "Has"}, {"Get", "Set", "Inc"}}
	for i, arr := range arrivals {
		lg := &tlog{}
		db := mapdb.NewMapDB()
		tv := newTV(db)
		if i%2 == 1 {
			_ = tv.Set(10)
		}
		gate := sched.NewGate()
		gate.Hold("compute")
		chs := []chan struct{}{make(chan struct{})}
		go func() { defer close(chs[0]); tvCall(lg, tv, 1, "Inc", 0, gate) }()
		sched.Quiesce(2 * time.Second)
		for j, op := range arr {
			ch := make(chan struct{})
			chs = append(chs, ch)
			j, op := j, op
			go func() { defer close(ch); tvCall(lg, tv, 2+j, op, 50+j, nil) }()
			sched.Quiesce(2 * time.Second)
		}
		gate.ReleaseAll()
		hung := tvWait(chs, 3*time.Second)
		hangs += len(hung)
		if i%2 == 1 { // the initial Set(10) of this scenario as a completed call
			lg.mu.Lock()
			lg.evs = append([]core.Ev{{"ev": "inv", "t": 6, "op": "Set", "a": 10}, {"ev": "ret", "t": 6, "res": 0}}, lg.evs...)
			lg.mu.Unlock()
		}
		tvEmit(enc, lg, db, hung)
	}

	// controlled schedules: a COLD TypedValue (nothing cached) over a store that may already hold the key; every acquisition
	// of the store's map lock is a stopping point (hook mapdb.VerifHook) and a random parked goroutine is released between
	// two quiescent points - so one caller can stand between its store access and its cache update (or hold the
	// TypedValue's own lock while it is parked in the store) while another runs. Afterwards the same (now warm) object is
	// read: a stale cache shows as a Get/Has that no order of the calls explains.
	for c := 0; c < *ctl; c++ {
		lg := &tlog{}
		db := mapdb.NewMapDB()
		if rng.Intn(3) > 0 {
			b := make([]byte, 8)
			binary.BigEndian.PutUint64(b, 10)
			_ = db.Set([]byte{7}, b)
			lg.evs = append(lg.evs, core.Ev{"ev": "inv", "t": 6, "op": "Set", "a": 10}, core.Ev{"ev": "ret", "t": 6, "res": 0})
		}
		tv := newTV(db)
		gate := sched.NewGate()
		gate.HoldAll()
		mapdb.VerifHook = func(string) { gate.Wait("lock") }
		nt := 2 + rng.Intn(2)
		chs := make([]chan struct{}, nt)
		var wg sync.WaitGroup
		for t := 1; t <= nt; t++ {
			t := t
			chs[t-1] = make(chan struct{})
			rg := rand.New(rand.NewSource(rng.Int63()))
			wg.Add(1)
			go func() {
				defer close(chs[t-1])
				defer wg.Done()
				for i, n := 0, 1+rg.Intn(2); i < n; i++ {
					tvCall(lg, tv, t, []string{"Get", "Has", "Get", "Set", "Delete", "Delete", "Inc"}[rg.Intn(7)], t*100+i, nil)
				}
			}()
		}
		all := make(chan struct{})
		go func() { wg.Wait(); close(all) }()
		for step := 0; step < 300; step++ {
			sched.QuiesceOpt(50*time.Millisecond, 2, false)
			n := gate.Parked("lock")
			if n == 0 {
				select {
				case <-all:
					step = 1 << 30
				default:
				}
				continue
			}
			gate.ReleaseNth("lock", rng.Intn(n))
		}
		gate.ReleaseAll()
		mapdb.VerifHook = nil
		hung := tvWait(chs, 3*time.Second)
		hangs += len(hung)
		if len(hung) == 0 {
			tvCall(lg, tv, 1, "Has", 0, nil)
			tvCall(lg, tv, 1, "Get", 0, nil)
		}
		tvEmit(enc, lg, db, hung)
	}

	for h := 0; h < *hist; h++ {
		if h%5 == 4 {
			runtime.GOMAXPROCS(1)
		} else {
			runtime.GOMAXPROCS(16)
		}
		lg := &tlog{}
		db := mapdb.NewMapDB()
		tv := newTV(db)
		nt, per := 2+rng.Intn(3), 4+rng.Intn(6)
		if h%7 == 6 {
			nt, per = 6, 3
		}
		onlyInc := h%4 == 3 // pure increment histories: the final value counts every call (no lost update)
		chs := make([]chan struct{}, nt)
		for t := 1; t <= nt; t++ {
			t := t
			chs[t-1] = make(chan struct{})
			rg := rand.New(rand.NewSource(rng.Int63()))
			go func() {
				defer close(chs[t-1])
				for i := 0; i < per; i++ {
					op := "Inc"
					if !onlyInc {
						op = []string{"Get", "Has", "Set", "Delete", "Inc", "Inc"}[rg.Intn(6)]
					}
					tvCall(lg, tv, t, op, t*100+i, nil)
					if rg.Intn(3) == 0 {
						runtime.Gosched()
					}
				}
			}()
		}
		hung := tvWait(chs, 10*time.Second)
		hangs += len(hung)
		tvEmit(enc, lg, db, hung)
	}
	runtime.GOMAXPROCS(16)
	fmt.Printf("{\"histories\": %d, \"hangs\": %d}\n", *hist+len(arrivals)+*ctl, hangs)
	return 0
}
