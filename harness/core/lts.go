package core

import (
	"bufio"
	"encoding/json"
	"fmt"
	"math/rand"
	"os"
	"runtime"
	"sort"
)

type Edge struct {
	From, To string
	Init     bool
	Cfg      Ev
	Ev       Ev
	stim     string
	obs      string
	covered  bool
}

type LTS struct {
	Edges []*Edge
	Out   map[string][]*Edge            // state -> outgoing edges
	Inits map[string]Ev                 // initial state id -> cfg
	Group map[string]map[string][]*Edge // state -> stimulus -> edges
}

func LoadLTS(path string) (*LTS, error) {
	f, err := os.Open(path)
	if err != nil {
		return nil, err
	}
	defer f.Close()
	l := &LTS{Out: map[string][]*Edge{}, Inits: map[string]Ev{}, Group: map[string]map[string][]*Edge{}}
	sc := bufio.NewScanner(f)
	sc.Buffer(make([]byte, 1<<20), 1<<28)
	for sc.Scan() {
		if len(sc.Bytes()) == 0 {
			continue
		}
		var raw struct {
			F string `json:"f"`
			T string `json:"t"`
			I bool   `json:"i"`
			C Ev     `json:"c"`
			E Ev     `json:"e"`
		}
		if err := json.Unmarshal(sc.Bytes(), &raw); err != nil {
			return nil, fmt.Errorf("edge: %w: %s", err, sc.Text())
		}
		e := &Edge{From: raw.F, To: raw.T, Init: raw.I, Cfg: raw.C, Ev: raw.E}
		e.stim = Canon(Stim(e.Ev))
		e.obs = Canon(Ev{"res": e.Ev["res"], "st": e.Ev["st"]})
		l.Edges = append(l.Edges, e)
		l.Out[e.From] = append(l.Out[e.From], e)
		if l.Group[e.From] == nil {
			l.Group[e.From] = map[string][]*Edge{}
		}
		l.Group[e.From][e.stim] = append(l.Group[e.From][e.stim], e)
		if e.Init {
			l.Inits[e.From] = e.Cfg
		}
	}
	return l, sc.Err()
}

// Mismatch is one observation of the real code that no edge of the model explains.
type Mismatch struct {
	Sut      string `json:"sut"`
	Class    string `json:"class"`
	Flow     string `json:"flow"`
	Op       string `json:"op"`
	Stimulus Ev     `json:"stimulus"`
	Expected []any  `json:"expected"`
	Observed Ev     `json:"observed"`
	Cfg      Ev     `json:"cfg"`
	Path     []Ev   `json:"path"` // stimuli from reset to (and including) the failing one
}

type WalkReport struct {
	Sut             string         `json:"sut"`
	States          int            `json:"states"`
	Edges           int            `json:"edges"`
	EdgesCovered    int            `json:"edges_covered"`
	Groups          int            `json:"stimulus_groups"`
	GroupsCovered   int            `json:"stimulus_groups_covered"`
	GroupsReachable int            `json:"stimulus_groups_reachable"`
	GroupsBad       int            `json:"stimulus_groups_mismatched"`
	Steps           int            `json:"steps"`
	Resets          int            `json:"resets"`
	RandomWalks     int            `json:"random_walks"`
	Restarts        int            `json:"process_restarts"`
	Mismatches      []Mismatch     `json:"mismatches"`
	MismatchClasses map[string]int `json:"mismatch_classes"`
	Samples         [][]Ev         `json:"samples"`
}

type walker struct {
	lts      *LTS
	sut      SUT
	name     string
	rep      *WalkReport
	cur      string
	path     []Ev
	cfg      Ev
	tries    map[string]int // state|stim -> attempts (nondeterministic groups)
	rng      *rand.Rand
	maxMis   int
	badEdge  map[string]bool // state|stim groups that produced a mismatch (not retried)
	diverted map[string]int  // state|stim|to -> times a planned nondeterministic hop went elsewhere
	hangExit func()          // saves the walk state and ends this process so that a fresh one continues (set in child mode)
}

func (w *walker) reset(init string) {
	w.cfg = w.lts.Inits[init]
	w.sut.Reset(w.cfg)
	w.cur = init
	w.path = []Ev{{"op": "reset", "cfg": w.cfg}}
	w.rep.Resets++
}

// step applies one stimulus group at the current state; returns false when the walk must reset.
func (w *walker) step(stim string) bool {
	edges := w.lts.Group[w.cur][stim]
	s := Stim(edges[0].Ev)
	OnHang = func(Ev) { // the call does not return: record it like a mismatching observation and go on in a fresh process
		w.observe(stim, s, edges, HangObs(), nil)
		if w.hangExit != nil {
			w.hangExit()
		}
		fmt.Fprintf(os.Stderr, "VERIF-HANG %s\n", Canon(s))
		os.Exit(2)
	}
	res, st, _ := SafeApply(w.sut, s)
	return w.observe(stim, s, edges, res, st)
}

// observe matches the observation of a step against the edges of its stimulus group; false = mismatch (reset).
func (w *walker) observe(stim string, s Ev, edges []*Edge, res, st any) bool {
	w.rep.Steps++
	obs := Canon(Ev{"res": res, "st": st})
	w.path = append(w.path, Ev{"stim": s, "res": res, "st": st})
	key := w.cur + "|" + stim
	w.tries[key]++
	for _, e := range edges {
		if e.obs == obs {
			if !e.covered {
				e.covered = true
				w.rep.EdgesCovered++
			}
			w.cur = e.To
			return true
		}
	}
	var exp []any
	for _, e := range edges {
		exp = append(exp, Ev{"res": e.Ev["res"], "st": e.Ev["st"]})
	}
	op, _ := s["op"].(string)
	w.badEdge[key] = true
	// keep a few examples per class (operation + panic message, if any), count all
	class := op
	if rm, ok := res.(map[string]any); ok {
		if pm, ok := rm["panic"].(string); ok {
			if len(pm) > 48 {
				pm = pm[:48]
			}
			class += "|panic:" + pm
		}
	}
	if w.rep.MismatchClasses == nil {
		w.rep.MismatchClasses = map[string]int{}
	}
	w.rep.MismatchClasses[class]++
	if w.rep.MismatchClasses[class] <= 3 && len(w.rep.Mismatches) < w.maxMis {
		w.rep.Mismatches = append(w.rep.Mismatches, Mismatch{Class: class, Sut: w.name, Flow: "lts", Op: op, Stimulus: s, Expected: exp,
			Observed: Ev{"res": res, "st": st}, Cfg: w.cfg, Path: append([]Ev(nil), w.path...)})
	}
	return false
}

func (w *walker) groupDone(state, stim string) bool {
	key := state + "|" + stim
	if w.badEdge[key] {
		return true
	}
	edges := w.lts.Group[state][stim]
	all := true
	for _, e := range edges {
		if !e.covered {
			all = false
		}
	}
	if all {
		return true
	}
	// nondeterministic group: give it a bounded number of attempts
	return len(edges) > 1 && w.tries[key] >= 8*len(edges)
}

// nearest returns the stimulus path (list of (state,stim)) from cur to the nearest state with an
// undone group, following for each stimulus group only deterministic edges (single-edge groups).
type hop struct {
	stim string
	from string
	to   string
}

func (w *walker) nearest(from string) (route []hop, target string, stim string, ok bool) {
	type qi struct {
		s    string
		prev int
		stim string
	}
	queue := []qi{{s: from, prev: -1}}
	seen := map[string]bool{from: true}
	for i := 0; i < len(queue); i++ {
		s := queue[i].s
		stims := make([]string, 0, len(w.lts.Group[s]))
		for k := range w.lts.Group[s] {
			stims = append(stims, k)
		}
		sort.Strings(stims)
		for _, k := range stims {
			if !w.groupDone(s, k) {
				// reconstruct
				var rev []hop
				for j := i; queue[j].prev >= 0; j = queue[j].prev {
					rev = append(rev, hop{stim: queue[j].stim, from: queue[queue[j].prev].s, to: queue[j].s})
				}
				for a, b := 0, len(rev)-1; a < b; a, b = a+1, b-1 {
					rev[a], rev[b] = rev[b], rev[a]
				}
				return rev, s, k, true
			}
		}
		for _, k := range stims {
			es := w.lts.Group[s][k]
			if w.badEdge[s+"|"+k] {
				continue
			}
			// deterministic groups, and outcomes of nondeterministic groups that this implementation
			// has been seen to produce (the route is re-planned if it produces another one)
			for _, e := range es {
				if len(es) != 1 && (!e.covered || w.diverted[s+"|"+k+"|"+e.To] >= 3) {
					continue
				}
				t := e.To
				if !seen[t] {
					seen[t] = true
					queue = append(queue, qi{s: t, prev: i, stim: k})
				}
			}
		}
	}
	return nil, "", "", false
}

// WalkState is what survives a restart of the walker process (see MaxGoroutines).
type WalkState struct {
	Covered      []int           `json:"covered"`
	Tries        map[string]int  `json:"tries"`
	Bad          map[string]bool `json:"bad"`
	Rep          *WalkReport     `json:"rep"`
	InitIdx      int             `json:"init_idx"`
	WalksDone    int             `json:"walks_done"`
	Restarts     int             `json:"restarts"`
	TourDone     bool            `json:"tour_done"`
	Tour2Started bool            `json:"tour2_started"`
	Done         bool            `json:"done"`
	Hangs        int             `json:"hangs"` // steps that did not return (each ended its process)

	canRestart bool
	OnHangExit func() `json:"-"` // child mode: write the state file and exit with the "continue me" code
}

// AllowRestart marks that a wrapper process will continue the walk in a fresh process.
func (st *WalkState) AllowRestart() { st.canRestart = true }

// MaxGoroutines: when abandoned objects have left more than this many parked goroutines behind,
// the walker stops at the next reset and asks to be continued in a fresh process (stack dumps of
// the whole process, which quiescence detection needs, get slow otherwise).
var MaxGoroutines = 120

// Walk performs the adaptive transition tour followed by `walks` random walks of length `depth`.
func Walk(name string, sut SUT, lts *LTS, seed int64, walks, depth, maxMismatch int) *WalkReport {
	st := &WalkState{}
	for {
		WalkResume(name, sut, lts, seed, walks, depth, maxMismatch, st)
		if st.Done {
			return st.Rep
		}
		// in-process continuation is only used when no restart wrapper is active
	}
}

// WalkResume continues the tour described by st; returns with st.Done=false when it wants a fresh process.
func WalkResume(name string, sut SUT, lts *LTS, seed int64, walks, depth, maxMismatch int, st *WalkState) {
	rep := st.Rep
	if rep == nil {
		rep = &WalkReport{Sut: name, Edges: len(lts.Edges)}
		st.Rep = rep
		st.Tries, st.Bad = map[string]int{}, map[string]bool{}
	}
	for _, i := range st.Covered {
		lts.Edges[i].covered = true
	}
	giveUp := func() bool { return st.canRestart && runtime.NumGoroutine() > MaxGoroutines }
	save := func() {
		st.Covered = st.Covered[:0]
		for i, e := range lts.Edges {
			if e.covered {
				st.Covered = append(st.Covered, i)
			}
		}
		st.Restarts++
	}
	rep.Groups = 0
	states := map[string]bool{}
	for _, e := range lts.Edges {
		states[e.From], states[e.To] = true, true
	}
	rep.States = len(states)
	for _, g := range lts.Group {
		rep.Groups += len(g)
	}
	w := &walker{lts: lts, sut: sut, name: name, rep: rep, tries: st.Tries, rng: rand.New(rand.NewSource(seed + int64(st.Restarts)*7919)),
		maxMis: maxMismatch, badEdge: st.Bad, diverted: map[string]int{}}
	if st.canRestart && st.OnHangExit != nil {
		w.hangExit = func() {
			save()
			st.Hangs++
			if st.Hangs >= 3 { // the verdict is clear (and every further hang costs StepTimeout): end the walk here
				st.Done = true
			}
			st.OnHangExit()
		}
	}
	inits := make([]string, 0, len(lts.Inits))
	for k := range lts.Inits {
		inits = append(inits, k)
	}
	sort.Strings(inits)
	// tour: exercise every stimulus group that can be reached; false = asked to be continued in a fresh process
	tour := func() bool {
		for ii, init := range inits {
			if ii < st.InitIdx {
				continue
			}
			st.InitIdx = ii
			w.reset(init)
			for guard := 0; guard < 50_000_000; guard++ {
				if len(w.path) == 1 && giveUp() {
					save()
					return false
				}
				route, _, stim, ok := w.nearest(w.cur)
				if !ok {
					if w.cur == init && len(w.path) == 1 {
						break
					}
					// nothing reachable from here; from a fresh object?
					if _, _, _, ok2 := w.nearest(init); !ok2 {
						break
					}
					w.reset(init)
					continue
				}
				alive := true
				diverted := false
				for _, h := range route {
					if !w.step(h.stim) {
						alive = false
						break
					}
					if w.cur != h.to {
						// a nondeterministic step took another branch: plan again from here (and stop relying
						// on that branch if it keeps happening)
						w.diverted[h.from+"|"+h.stim+"|"+h.to]++
						diverted = true
						break
					}
				}
				if alive && !diverted {
					if _, ok := w.lts.Group[w.cur][stim]; ok {
						alive = w.step(stim)
					}
				}
				if !alive {
					w.reset(init)
				}
			}
			if len(rep.Samples) < 3 && len(w.path) > 1 {
				p := w.path
				if len(p) > 12 {
					p = p[:12]
				}
				rep.Samples = append(rep.Samples, append([]Ev(nil), p...))
			}
		}
		return true
	}
	if !st.TourDone {
		if !tour() {
			return
		}
		st.TourDone = true
	}
	// random walks (deeper mixes of the same edges)
	for i := st.WalksDone; i < walks && len(inits) > 0; i++ {
		if giveUp() {
			save()
			return
		}
		st.WalksDone = i + 1
		init := inits[w.rng.Intn(len(inits))]
		w.reset(init)
		rep.RandomWalks++
		for d := 0; d < depth; d++ {
			g := w.lts.Group[w.cur]
			if len(g) == 0 {
				break
			}
			stims := make([]string, 0, len(g))
			for k := range g {
				if !w.badEdge[w.cur+"|"+k] {
					stims = append(stims, k)
				}
			}
			if len(stims) == 0 {
				break
			}
			sort.Strings(stims)
			if !w.step(stims[w.rng.Intn(len(stims))]) {
				break
			}
		}
	}
	// second tour: outcomes of nondeterministic groups first seen during the random walks may have opened new states
	if !st.Tour2Started {
		st.Tour2Started = true
		st.InitIdx = 0
	}
	if !tour() {
		return
	}
	rep.GroupsCovered = 0
	st.Done = true
	// states the implementation can reach: closure from the initial states over edges that were observed
	// or are the only edge of their stimulus group (alternatives of nondeterministic groups that this
	// implementation never takes lead to states that cannot be visited)
	reach := map[string]bool{}
	var stack []string
	for k := range lts.Inits {
		reach[k] = true
		stack = append(stack, k)
	}
	for len(stack) > 0 {
		x := stack[len(stack)-1]
		stack = stack[:len(stack)-1]
		for k, es := range lts.Group[x] {
			if w.badEdge[x+"|"+k] {
				continue
			}
			for _, e := range es {
				if len(es) != 1 && w.diverted[x+"|"+k+"|"+e.To] >= 3 {
					continue // an outcome the implementation produced once but not when asked again: not reliably reachable
				}
				if (e.covered || len(es) == 1) && !reach[e.To] {
					reach[e.To] = true
					stack = append(stack, e.To)
				}
			}
		}
	}
	rep.GroupsReachable, rep.GroupsBad = 0, 0
	for x, g := range lts.Group {
		if !reach[x] {
			continue
		}
		for k := range g {
			if w.badEdge[x+"|"+k] {
				rep.GroupsBad++
			}
			rep.GroupsReachable++
		}
	}
	for s, g := range lts.Group {
		for k, es := range g {
			if w.badEdge[s+"|"+k] {
				continue
			}
			for _, e := range es {
				if e.covered {
					rep.GroupsCovered++
					break
				}
			}
		}
	}
}

// ReplayPath re-applies the stimuli of a recorded mismatch on a fresh real object.
func ReplayPath(sut SUT, m *Mismatch) int {
	sut.Reset(m.Cfg)
	var res, st any
	for i, p := range m.Path {
		if i == 0 {
			continue
		}
		s, _ := p["stim"].(map[string]any)
		res, st, _ = SafeApply(sut, s)
		fmt.Printf("step %d %s -> %s\n", i, Canon(s), Canon(Ev{"res": res, "st": st}))
	}
	obs := Canon(Ev{"res": res, "st": st})
	for _, e := range m.Expected {
		if Canon(e) == obs {
			fmt.Println("conforms: observation equals the model's expectation")
			return 0
		}
	}
	fmt.Printf("MISMATCH: observed %s, model allows %s\n", obs, Canon(m.Expected))
	return 1
}
