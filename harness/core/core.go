// Package core is the SUT-side half of the model/code binding: adapters that apply model
// stimuli to real hive.go objects, an adaptive transition-tour walker over the labelled
// transition system exported by TLC (model -> code) and a recorder that logs what the real
// objects do under random stimuli as NDJSON for TLC to validate (code -> model).
package core

import (
	"bytes"
	"encoding/json"
	"fmt"
	"math/rand"
	"os"
	"sort"
	"strconv"
	"time"
)

// Ev is an event record: stimulus fields plus "res" (result) and "st" (projected state).
type Ev = map[string]any

// SUT adapts one kind of real object to the stimulus alphabet of its TLA+ module.
type SUT interface {
	// Reset builds a fresh real object for configuration cfg (the spec's cfg record).
	Reset(cfg Ev)
	// Apply performs stimulus s on the real object and returns the result ("res") and the
	// projected abstract state afterwards ("st"), both as plain JSON-able values. A panic
	// is recovered by the caller and becomes res = {"panic": msg}.
	Apply(s Ev) (res any, st any)
	// RandomCfg / RandomStimulus drive the recorder (code -> model).
	RandomCfg(r *rand.Rand) Ev
	RandomStimulus(r *rand.Rand) Ev
}

var registry = map[string]func() SUT{}

func Register(name string, f func() SUT) { registry[name] = f }

func New(name string) SUT {
	f, ok := registry[name]
	if !ok {
		panic("unknown sut " + name)
	}
	return f()
}

func Names() []string {
	var n []string
	for k := range registry {
		n = append(n, k)
	}
	sort.Strings(n)
	return n
}

// Canon returns the canonical JSON of v (object keys sorted, numbers normalised).
func Canon(v any) string {
	b, err := json.Marshal(v)
	if err != nil {
		panic(fmt.Sprintf("canon: %v (%T)", err, v))
	}
	var x any
	d := json.NewDecoder(bytes.NewReader(b))
	d.UseNumber()
	if err := d.Decode(&x); err != nil {
		panic(err)
	}
	b, _ = json.Marshal(x)
	return string(b)
}

// Stim returns ev without its observation fields.
func Stim(ev Ev) Ev {
	s := Ev{}
	for k, v := range ev {
		if k == "res" || k == "st" {
			continue
		}
		s[k] = v
	}
	return s
}

// SafeApply applies s ON THE CALLER'S GOROUTINE (adapters may depend on goroutine identity), converting a panic into an
// observation. A call that does not return within StepTimeout - a self-deadlock of the real object in a sequential
// history - cannot be interrupted: OnHang (set by the walker / recorder / replayer) is then called from a timer
// goroutine with the stimulus; it records the hang as the observation {"panic": "hang: ..."} and ends the process.
var StepTimeout = func() time.Duration {
	if v, err := strconv.Atoi(os.Getenv("VERIF_STEP_TIMEOUT")); err == nil && v > 0 {
		return time.Duration(v) * time.Second
	}
	return 30 * time.Second
}()

// HangObs is the observation recorded for a call that did not return.
func HangObs() Ev { return Ev{"panic": fmt.Sprintf("hang: the call did not return within %s", StepTimeout)} }

// OnHang is called (from another goroutine) when a step exceeds StepTimeout; it must not return.
var OnHang = func(s Ev) {
	fmt.Fprintf(os.Stderr, "VERIF-HANG %s\n", Canon(s))
	os.Exit(2)
}

func SafeApply(sut SUT, s Ev) (res any, st any, panicked bool) {
	t := time.AfterFunc(StepTimeout, func() { OnHang(s) })
	defer t.Stop()
	defer func() {
		if r := recover(); r != nil {
			res, st, panicked = Ev{"panic": fmt.Sprint(r)}, nil, true
		}
	}()
	res, st = sut.Apply(s)
	return res, st, false
}

// Helpers for adapters -------------------------------------------------------------------

func Int(s Ev, k string) int {
	switch v := s[k].(type) {
	case float64:
		return int(v)
	case int:
		return v
	case json.Number:
		i, _ := v.Int64()
		return int(i)
	}
	panic(fmt.Sprintf("field %s: not a number: %v (%T)", k, s[k], s[k]))
}

func Str(s Ev, k string) string {
	v, ok := s[k].(string)
	if !ok {
		panic(fmt.Sprintf("field %s: not a string: %v", k, s[k]))
	}
	return v
}

func Bool(s Ev, k string) bool {
	v, ok := s[k].(bool)
	if !ok {
		panic(fmt.Sprintf("field %s: not a bool: %v", k, s[k]))
	}
	return v
}

func Rec(s Ev, k string) Ev {
	v, ok := s[k].(map[string]any)
	if !ok {
		panic(fmt.Sprintf("field %s: not a record: %v", k, s[k]))
	}
	return v
}

// Ints converts a JSON array of numbers.
func Ints(s Ev, k string) []int {
	a, ok := s[k].([]any)
	if !ok {
		panic(fmt.Sprintf("field %s: not an array: %v", k, s[k]))
	}
	out := make([]int, len(a))
	for i, x := range a {
		out[i] = Int(Ev{"x": x}, "x")
	}
	return out
}

// Opt encodes an optional value the way the specs do: <<>> or <<v>>.
func Opt(ok bool, v any) []any {
	if ok {
		return []any{v}
	}
	return []any{}
}

// Seq makes a non-nil JSON array from a typed slice.
func Seq[T any](xs []T) []any {
	out := make([]any, len(xs))
	for i, x := range xs {
		out[i] = x
	}
	return out
}

// SortedInts returns a sorted copy as JSON array (the specs encode sets as sorted sequences).
func SortedInts(xs []int) []any {
	c := append([]int(nil), xs...)
	sort.Ints(c)
	return Seq(c)
}

func Pick[T any](r *rand.Rand, xs ...T) T { return xs[r.Intn(len(xs))] }
