// CLI shared by the per-property harness binaries: `h lts <sut> <edges.ndjson>` replays TLC's transition system
// on the real object; `h record <sut>` records random histories of the real object as NDJSON.
package core

import (
	"encoding/json"
	"flag"
	"fmt"
	"os"
	"os/exec"
)

// Main is the entry point shared by the per-property binaries (cmd/<id>).
func Main() {
	if len(os.Args) < 2 {
		fmt.Println("usage: h lts|record|list ...")
		os.Exit(2)
	}
	switch os.Args[1] {
	case "list":
		for _, n := range Names() {
			fmt.Println(n)
		}
	case "lts":
		fs := flag.NewFlagSet("lts", flag.ExitOnError)
		seed := fs.Int64("seed", 1, "")
		walks := fs.Int("walks", 200, "")
		depth := fs.Int("depth", 30, "")
		maxm := fs.Int("maxmismatch", 50, "")
		out := fs.String("out", "", "")
		child := fs.String("child", "", "")
		_ = fs.Parse(os.Args[4:])
		name, path := os.Args[2], os.Args[3]
		lts, err := LoadLTS(path)
		if err != nil {
			fmt.Fprintln(os.Stderr, err)
			os.Exit(2)
		}
		if *child != "" {
			// one leg of a restartable walk: load state, continue, save state; exit 3 = continue me
			st := &WalkState{}
			if b, err := os.ReadFile(*child); err == nil && len(b) > 0 {
				if err := json.Unmarshal(b, st); err != nil {
					fmt.Fprintln(os.Stderr, "bad state file", err)
					os.Exit(2)
				}
			}
			st.AllowRestart()
			st.OnHangExit = func() {
				writeJSON(*child, st)
				if st.Done {
					os.Exit(0)
				}
				os.Exit(3)
			}
			WalkResume(name, New(name), lts, *seed, *walks, *depth, *maxm, st)
			writeJSON(*child, st)
			if st.Done {
				os.Exit(0)
			}
			os.Exit(3)
		}
		// wrapper: run legs in fresh processes until the walk is done
		tmp, err := os.CreateTemp("", "verif-walk-*.json")
		if err != nil {
			fmt.Fprintln(os.Stderr, err)
			os.Exit(2)
		}
		tmp.Close()
		defer os.Remove(tmp.Name())
		for leg := 0; ; leg++ {
			cmd := exec.Command(os.Args[0], append(append([]string{}, os.Args[1:]...), "-child", tmp.Name())...)
			cmd.Stderr = os.Stderr
			err := cmd.Run()
			if err == nil {
				break
			}
			if ee, ok := err.(*exec.ExitError); ok && ee.ExitCode() == 3 && leg < 10000 {
				continue
			}
			fmt.Fprintln(os.Stderr, "walker leg failed:", err)
			os.Remove(tmp.Name())
			os.Exit(2)
		}
		st := &WalkState{}
		b, _ := os.ReadFile(tmp.Name())
		if err := json.Unmarshal(b, st); err != nil || st.Rep == nil {
			fmt.Fprintln(os.Stderr, "no walk report", err)
			os.Exit(2)
		}
		st.Rep.Restarts = st.Restarts
		writeJSON(*out, st.Rep)
	case "path":
		// h path <sut> <mismatch.json>: re-apply a recorded failing path; exit 1 if the real code
		// still disagrees with every expected observation, 0 if it now conforms.
		var m Mismatch
		b, err := os.ReadFile(os.Args[3])
		if err != nil || json.Unmarshal(b, &m) != nil {
			fmt.Fprintln(os.Stderr, "cannot read", os.Args[3], err)
			os.Exit(2)
		}
		os.Exit(ReplayPath(New(os.Args[2]), &m))
	case "record":
		fs := flag.NewFlagSet("record", flag.ExitOnError)
		seed := fs.Int64("seed", 1, "")
		traces := fs.Int("traces", 50, "")
		length := fs.Int("len", 100, "")
		out := fs.String("out", "", "")
		_ = fs.Parse(os.Args[3:])
		n, err := Record(New(os.Args[2]), *seed, *traces, *length, *out)
		if err != nil {
			fmt.Fprintln(os.Stderr, err)
			os.Exit(2)
		}
		fmt.Printf("{\"events\": %d}\n", n)
	default:
		if f, ok := commands[os.Args[1]]; ok {
			os.Exit(f(os.Args[2:]))
		}
		fmt.Println("unknown command")
		os.Exit(2)
	}
}

// commands are extra sub-commands registered by sut packages (drivers, schedulers).
var commands = map[string]func(args []string) int{}

// RegisterCommand adds a sub-command `h <name> args...`; f returns the exit code.
func RegisterCommand(name string, f func(args []string) int) { commands[name] = f }

// WriteJSON writes v (indented) to path, or stdout when path is empty.
func WriteJSON(path string, v any) { writeJSON(path, v) }

func writeJSON(path string, v any) {
	b, _ := json.MarshalIndent(v, "", " ")
	if path == "" {
		fmt.Println(string(b))
		return
	}
	if err := os.WriteFile(path, b, 0o644); err != nil {
		fmt.Fprintln(os.Stderr, err)
		os.Exit(2)
	}
}
