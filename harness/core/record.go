package core

import (
	"bufio"
	"encoding/json"
	"math/rand"
	"os"
)

// Record runs `traces` random histories of `length` stimuli on fresh real objects and writes
// them as one NDJSON file (each trace starts with an op=reset line carrying cfg).
func Record(sut SUT, seed int64, traces, length int, out string) (events int, err error) {
	f, err := os.Create(out)
	if err != nil {
		return 0, err
	}
	defer f.Close()
	w := bufio.NewWriter(f)
	defer w.Flush()
	r := rand.New(rand.NewSource(seed))
	enc := json.NewEncoder(w)
	for t := 0; t < traces; t++ {
		cfg := sut.RandomCfg(r)
		sut.Reset(cfg)
		if err := enc.Encode(Ev{"op": "reset", "cfg": cfg}); err != nil {
			return events, err
		}
		events++
		for i := 0; i < length; i++ {
			// a SUT may offer scenarios of its own (several calls, some of them concurrent): it returns the complete
			// lines (stimulus, result, state) in the order in which the calls took effect
			if sc, ok := sut.(interface{ Scenario(*rand.Rand) []Ev }); ok && r.Intn(5) == 0 {
				for _, line := range sc.Scenario(r) {
					if err := enc.Encode(line); err != nil {
						return events, err
					}
					events++
				}
				if d, ok := sut.(interface{ Dead() bool }); ok && d.Dead() {
					break
				}
				continue
			}
			s := sut.RandomStimulus(r)
			OnHang = func(Ev) { // the call does not return: the trace ends with the hang as its observation
				line := Ev{}
				for k, v := range s {
					line[k] = v
				}
				line["res"] = HangObs()
				_ = enc.Encode(line)
				_ = w.Flush()
				_ = f.Close()
				os.Exit(0)
			}
			res, st, panicked := SafeApply(sut, s)
			line := Ev{}
			for k, v := range s {
				line[k] = v
			}
			line["res"] = res
			if st != nil {
				line["st"] = st
			}
			if err := enc.Encode(line); err != nil {
				return events, err
			}
			events++
			if panicked {
				break
			}
			if d, ok := sut.(interface{ Dead() bool }); ok && d.Dead() {
				break // the object declared itself unusable (e.g. after a misuse panic)
			}
		}
	}
	return events, nil
}
