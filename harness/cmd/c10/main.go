package main

import (
	"verifharness/core"
	_ "verifharness/sut/list"
)

func main() { core.Main() }
