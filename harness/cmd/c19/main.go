package main

import (
	"verifharness/core"
	_ "verifharness/sut/safemath"
)

func main() { core.Main() }
