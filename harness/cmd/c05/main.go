package main

import (
	"verifharness/core"
	_ "verifharness/sut/kvconc"
)

func main() { core.Main() }
