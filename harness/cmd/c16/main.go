package main

import (
	"verifharness/core"
	_ "verifharness/sut/workerpool"
)

func main() { core.Main() }
