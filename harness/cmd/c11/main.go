package main

import (
	"verifharness/core"
	_ "verifharness/sut/orderedset"
)

func main() { core.Main() }
