package main

import (
	"verifharness/core"
	_ "verifharness/sut/typed"
)

func main() { core.Main() }
