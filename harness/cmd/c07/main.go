package main

import (
	"verifharness/core"
	_ "verifharness/sut/sequence"
)

func main() { core.Main() }
