package main

import (
	"verifharness/core"
	_ "verifharness/sut/timed"
)

func main() { core.Main() }
