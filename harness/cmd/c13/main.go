package main

import (
	"verifharness/core"
	_ "verifharness/sut/reactive"
)

func main() { core.Main() }
