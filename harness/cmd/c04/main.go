package main

import (
	"verifharness/core"
	_ "verifharness/sut/kvstore"
)

func main() { core.Main() }
