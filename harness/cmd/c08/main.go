package main

import (
	"verifharness/core"
	_ "verifharness/sut/batchwriter"
)

func main() { core.Main() }
