package main

import (
	"verifharness/core"
	_ "verifharness/sut/syncutils"
)

func main() { core.Main() }
