package main

import (
	"verifharness/core"
	_ "verifharness/sut/ext2"
)

func main() { core.Main() }
