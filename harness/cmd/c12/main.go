package main

import (
	"verifharness/core"
	_ "verifharness/sut/containers"
	_ "verifharness/sut/containers2"
)

func main() { core.Main() }
