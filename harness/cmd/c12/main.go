package main

import (
	"verifharness/core"
	_ "verifharness/sut/containers"
)

func main() { core.Main() }
