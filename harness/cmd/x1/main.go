package main

import (
	"verifharness/core"
	_ "verifharness/sut/ext1"
)

func main() { core.Main() }
