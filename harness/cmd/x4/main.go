package main

import (
	"verifharness/core"
	_ "verifharness/sut/ext4"
)

func main() { core.Main() }
