package main

import (
	"verifharness/core"
	_ "verifharness/sut/wire"
	_ "verifharness/sut/wire2"
)

func main() { core.Main() }
