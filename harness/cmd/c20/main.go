package main

import (
	"verifharness/core"
	_ "verifharness/sut/daemon"
)

func main() { core.Main() }
