package main

import (
	"verifharness/core"
	_ "verifharness/sut/ext3"
)

func main() { core.Main() }
