package main

import (
	"verifharness/core"
	_ "verifharness/sut/derived"
)

func main() { core.Main() }
