package main

import (
	"verifharness/core"
	_ "verifharness/sut/wire"
)

func main() { core.Main() }
