package main

import (
	"verifharness/core"
	_ "verifharness/sut/ads"
)

func main() { core.Main() }
