package main

import (
	"verifharness/core"
	_ "verifharness/sut/events"
)

func main() { core.Main() }
