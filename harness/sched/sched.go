// Package sched makes concurrent hive.go objects replayable: scripted calls run on harness
// threads (goroutines), and the scheduler waits until the WHOLE process is quiescent - every
// goroutine other than the scheduler parked in a blocking state, stable over consecutive polls -
// before the next call is issued.  Between two quiescent points exactly one new call was started,
// so the execution is serial and reproducible; what remains nondeterministic (which waiter a
// Signal wakes) is observed and followed by the adaptive LTS walker.
package sched

import (
	"fmt"
	"runtime"
	"sort"
	"strconv"
	"strings"
	"sync"
	"time"
)

// Snapshot returns goroutine id -> state for all goroutines.
func Snapshot() map[int64]string {
	buf := make([]byte, 1<<16)
	for {
		n := runtime.Stack(buf, true)
		if n < len(buf) {
			buf = buf[:n]
			break
		}
		buf = make([]byte, 2*len(buf))
	}
	out := map[int64]string{}
	// manual scan for "goroutine N [state" at line starts (much cheaper than a regexp on big dumps)
	const pfx = "goroutine "
	for i := 0; i < len(buf); {
		if i+len(pfx) < len(buf) && string(buf[i:i+len(pfx)]) == pfx {
			j := i + len(pfx)
			var id int64
			for j < len(buf) && buf[j] >= '0' && buf[j] <= '9' {
				id = id*10 + int64(buf[j]-'0')
				j++
			}
			if j+2 < len(buf) && buf[j] == ' ' && buf[j+1] == '[' {
				k := j + 2
				for k < len(buf) && buf[k] != ']' && buf[k] != ',' {
					k++
				}
				out[id] = string(buf[j+2 : k])
			}
		}
		// advance to next line
		for i < len(buf) && buf[i] != '\n' {
			i++
		}
		i++
	}
	return out
}

// Gid returns the calling goroutine's id (parsed from its own stack header; goid packages are
// unreliable with this toolchain).
func Gid() int64 {
	buf := make([]byte, 64)
	n := runtime.Stack(buf, false)
	f := strings.Fields(string(buf[:n]))
	id, _ := strconv.ParseInt(f[1], 10, 64)
	return id
}

func blockedState(s string, allowSleep bool) bool {
	switch {
	case s == "running", s == "runnable", s == "syscall", s == "IO wait", s == "waiting", s == "copystack", s == "preempted":
		return false
	case s == "sleep":
		return allowSleep
	}
	return true // chan receive, chan send, select, sync.Cond.Wait, sync.Mutex.Lock, semacquire, sync.WaitGroup.Wait, GC ..., finalizer wait ...
}

var ignore sync.Map // goroutine ids that are ignored (e.g. runtime helpers stuck in syscall)

// IgnoreCurrentNonBlocked records all goroutines that are currently in a non-blocked state other
// than the caller (runtime helpers such as the signal loop) so they do not prevent quiescence.
func IgnoreCurrentNonBlocked() {
	me := Gid()
	for id, st := range Snapshot() {
		if id != me && (st == "syscall" || st == "IO wait") {
			ignore.Store(id, true)
		}
	}
}

// Quiesce waits until every goroutine except the caller is blocked and the picture is stable for
// `stable` consecutive polls. Returns false if that did not happen within maxWait.
func Quiesce(maxWait time.Duration) bool { return QuiesceOpt(maxWait, 3, false) }

func QuiesceOpt(maxWait time.Duration, stable int, allowSleep bool) bool {
	me := Gid()
	deadline := time.Now().Add(maxWait)
	var prev string
	same := 0
	for {
		runtime.Gosched()
		snap := Snapshot()
		ok := true
		var sb strings.Builder
		for id, st := range snap {
			if id == me {
				continue
			}
			if _, ig := ignore.Load(id); ig {
				continue
			}
			if !blockedState(st, allowSleep) {
				ok = false
				break
			}
		}
		if ok {
			// order-independent fingerprint
			var sum, n int64
			for id, st := range snap {
				if id == me {
					continue
				}
				h := id * 1000003
				for _, c := range st {
					h = h*31 + int64(c)
				}
				sum += h
				n++
			}
			fmt.Fprintf(&sb, "%d/%d", n, sum)
			if sb.String() == prev {
				same++
			} else {
				same = 1
				prev = sb.String()
			}
			if same >= stable {
				return true
			}
		} else {
			same = 0
			prev = ""
		}
		if time.Now().After(deadline) {
			return false
		}
		// short spin instead of time.Sleep: timer wake-ups in an otherwise idle process cost ~1 ms
		for t0 := time.Now(); time.Since(t0) < 30*time.Microsecond; {
			runtime.Gosched()
		}
	}
}

// Thread is a harness goroutine that executes one scripted call at a time.
type Thread struct {
	ID    int
	work  chan func() any
	mu    sync.Mutex
	busy  bool
	res   any
	pan   any
	done  bool
	gid   int64
	ready chan struct{}
}

func NewThread(id int) *Thread {
	t := &Thread{ID: id, work: make(chan func() any), ready: make(chan struct{})}
	go t.loop()
	<-t.ready
	return t
}

func (t *Thread) loop() {
	t.gid = Gid()
	close(t.ready)
	for f := range t.work {
		t.run(f)
	}
}

func (t *Thread) run(f func() any) {
	defer func() {
		r := recover()
		t.mu.Lock()
		if r != nil {
			t.pan = r
		}
		t.busy = false
		t.done = true
		t.mu.Unlock()
	}()
	res := f()
	t.mu.Lock()
	t.res = res
	t.mu.Unlock()
}

// GID returns the goroutine id of the thread.
func (t *Thread) GID() int64 { return t.gid }

// Go starts f on the thread (the thread must be idle).
func (t *Thread) Go(f func() any) {
	t.mu.Lock()
	if t.busy {
		t.mu.Unlock()
		panic(fmt.Sprintf("thread %d is busy", t.ID))
	}
	t.busy, t.done, t.res, t.pan = true, false, nil, nil
	t.mu.Unlock()
	t.work <- f
}

// Busy reports whether the thread is inside a call (i.e. blocked, once the process is quiescent).
func (t *Thread) Busy() bool {
	t.mu.Lock()
	defer t.mu.Unlock()
	return t.busy
}

// Take returns (and clears) the completion of the last call: finished, result, panic value.
func (t *Thread) Take() (finished bool, res any, pan any) {
	t.mu.Lock()
	defer t.mu.Unlock()
	if !t.done {
		return false, nil, nil
	}
	t.done = false
	return true, t.res, t.pan
}

// Abandon stops feeding the thread (its goroutine exits if idle, stays parked if blocked).
func (t *Thread) Abandon() {
	defer func() { _ = recover() }()
	close(t.work)
}

// Gate is a rendezvous used inside callbacks/hooks: the callback goroutine parks in Wait until the
// scheduler releases it.
type Gate struct {
	mu      sync.Mutex
	waiting map[string][]chan struct{}
	held    map[string]bool // points at which arriving goroutines park
	arrived []string
	all     bool
}

func NewGate() *Gate {
	return &Gate{waiting: map[string][]chan struct{}{}, held: map[string]bool{}}
}

// HoldAll makes every point a stopping point (controlled scheduling: the scheduler decides who goes on).
func (g *Gate) HoldAll() { g.mu.Lock(); g.all = true; g.mu.Unlock() }

// ParkedPoints returns the points at which goroutines are parked right now (sorted).
func (g *Gate) ParkedPoints() []string {
	g.mu.Lock()
	defer g.mu.Unlock()
	var out []string
	for p, w := range g.waiting {
		if len(w) > 0 {
			out = append(out, p)
		}
	}
	sort.Strings(out)
	return out
}

// Hold makes point p a stopping point (default: all points pass freely).
func (g *Gate) Hold(p string) { g.mu.Lock(); g.held[p] = true; g.mu.Unlock() }

// Free stops holding at p (already parked goroutines stay parked until Release).
func (g *Gate) Free(p string) { g.mu.Lock(); delete(g.held, p); g.mu.Unlock() }

// Wait is called by the callback/hook; parks if p is held.
func (g *Gate) Wait(p string) {
	g.mu.Lock()
	if !g.held[p] && !g.all {
		g.mu.Unlock()
		return
	}
	ch := make(chan struct{})
	g.waiting[p] = append(g.waiting[p], ch)
	g.arrived = append(g.arrived, p)
	g.mu.Unlock()
	<-ch
}

// Parked returns how many goroutines are parked at p.
func (g *Gate) Parked(p string) int {
	g.mu.Lock()
	defer g.mu.Unlock()
	return len(g.waiting[p])
}

// Release lets the oldest goroutine parked at p continue; false if none.
func (g *Gate) Release(p string) bool {
	g.mu.Lock()
	defer g.mu.Unlock()
	w := g.waiting[p]
	if len(w) == 0 {
		return false
	}
	close(w[0])
	g.waiting[p] = w[1:]
	return true
}

// ReleaseNth lets the n-th oldest goroutine parked at p continue (n from 0); false if there is none.
func (g *Gate) ReleaseNth(p string, n int) bool {
	g.mu.Lock()
	defer g.mu.Unlock()
	w := g.waiting[p]
	if n < 0 || n >= len(w) {
		return false
	}
	close(w[n])
	g.waiting[p] = append(append([]chan struct{}{}, w[:n]...), w[n+1:]...)
	return true
}

// ReleaseAll frees every parked goroutine and stops holding anything.
func (g *Gate) ReleaseAll() {
	g.mu.Lock()
	defer g.mu.Unlock()
	g.held = map[string]bool{}
	g.all = false
	for p, w := range g.waiting {
		for _, ch := range w {
			close(ch)
		}
		delete(g.waiting, p)
	}
}
